#!/bin/sh
# tools/try_seed.sh <seed-dir> <k> <PROP> [extra check args]
# Verifies a sub-agent's change (patch<k>.diff + demo<k>.py) in a scratch worktree and runs the property's check against it.
# Nothing is applied to /repo; the scratch worktree is removed afterwards.
set -u
D="$1"; K="$2"; P="$3"; shift 3
WT="/tmp/wt-verify-$$"
git -C /repo worktree add -q --detach "$WT" HEAD || exit 2
trap 'git -C /repo worktree remove --force "$WT" >/dev/null 2>&1' EXIT
cd "$WT" || exit 2
echo "== demo on clean tree"
PYTHONPATH="$WT/src" PYTHONDONTWRITEBYTECODE=1 timeout 300 /venv/bin/python "$D/demo$K.py" >/tmp/demo_clean.$$ 2>&1; echo "demo clean exit=$?"
git apply "$D/patch$K.diff" || { echo "PATCH DOES NOT APPLY"; exit 2; }
git diff --stat | tail -3
echo "== tests with patch"
PYTHONPATH="$WT/src" PYTHONDONTWRITEBYTECODE=1 timeout 900 /venv/bin/python -m pytest -q -p no:cacheprovider --timeout=900 2>&1 | tail -1
echo "== demo with patch"
PYTHONPATH="$WT/src" PYTHONDONTWRITEBYTECODE=1 timeout 300 /venv/bin/python "$D/demo$K.py" >/tmp/demo_patched.$$ 2>&1; echo "demo patched exit=$?"; tail -3 /tmp/demo_patched.$$
rm -rf "$WT/logs" /tmp/demo_clean.$$ /tmp/demo_patched.$$
echo "== check $P against patched tree"
cd /verif && JASM_VERIF_REPO="$WT" ./check "$P" --tier quick --no-evidence "$@" 2>&1 | grep -v "^  detail" | tail -8
