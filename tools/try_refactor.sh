#!/bin/sh
# tools/try_refactor.sh <dir> <k>  : a behaviour-preserving refactoring (patch<k>.diff) must NOT raise any alarm.
set -u
D="$1"; K="$2"
WT="/tmp/wt-refverify-$$"
git -C /repo worktree add -q --detach "$WT" HEAD || exit 2
trap 'git -C /repo worktree remove --force "$WT" >/dev/null 2>&1' EXIT
cd "$WT" || exit 2
git apply "$D/patch$K.diff" || { echo "PATCH DOES NOT APPLY"; exit 2; }
git diff --stat | tail -1
PYTHONPATH="$WT/src" PYTHONDONTWRITEBYTECODE=1 timeout 900 /venv/bin/python -m pytest -q -p no:cacheprovider --timeout=900 2>&1 | tail -1
rm -rf "$WT/logs"
cd /verif
for P in C14 C15 C17 C20; do
  JASM_VERIF_REPO="$WT" ./check "$P" --tier quick --no-evidence > /tmp/ref_out.$$ 2>&1; rc=$?
  echo "$P exit=$rc $(grep -c 'seam-escape' /tmp/ref_out.$$) seam-escape warnings; $(tail -1 /tmp/ref_out.$$)"
  if [ $rc -ne 0 ]; then grep -E "VIOLATION|signature|detail|HARNESS" /tmp/ref_out.$$ | head -12; fi
done
rm -f /tmp/ref_out.$$
