"""Small shared helpers: seed derivation, canonical JSON, digests, scratch dirs.

Nothing in here may read a clock or an unseeded PRNG except `wall()` which is
used for evidence timing only (never for a decision)."""
from __future__ import annotations

import base64
import hashlib
import json
import os
import shutil
import sys
import tempfile
import time

MASK = (1 << 64) - 1


def splitmix64(x: int) -> int:
    x = (x + 0x9E3779B97F4A7C15) & MASK
    z = x
    z = ((z ^ (z >> 30)) * 0xBF58476D1CE4E5B9) & MASK
    z = ((z ^ (z >> 27)) * 0x94D049BB133111EB) & MASK
    return z ^ (z >> 31)


def derive_seed(base: int, prop: str, index: int, salt: str = "") -> int:
    """seed_i = f(VERIF_SEED, property, run index[, salt]) - the one integer that decides a run."""
    h = hashlib.sha256(f"{prop}|{salt}".encode()).digest()
    x = int.from_bytes(h[:8], "big")
    return splitmix64(splitmix64((base & MASK) ^ x) ^ (index & MASK))


def base_seed() -> int:
    try:
        return int(os.environ.get("VERIF_SEED", "0"))
    except ValueError:
        return 0


def cjson(obj) -> str:
    return json.dumps(obj, sort_keys=True, separators=(",", ":"), ensure_ascii=True, default=_default)


def _default(o):
    if isinstance(o, bytes):
        return {"b64": base64.b64encode(o).decode()}
    if isinstance(o, (set, frozenset)):
        return sorted(o)
    if isinstance(o, tuple):
        return list(o)
    raise TypeError(type(o))


def digest(obj) -> str:
    return hashlib.sha256(cjson(obj).encode()).hexdigest()


def wall() -> float:
    return time.monotonic()


_SCRATCH = None


def scratch_root() -> str:
    """Private scratch directory of this harness process (tmpfs when available).

    Created lazily, removed by `cleanup_scratch` (registered by the dispatcher)."""
    global _SCRATCH
    if _SCRATCH is None:
        base = os.environ.get("JASM_VERIF_SCRATCH")
        if not base:
            base = "/dev/shm" if os.path.isdir("/dev/shm") and os.access("/dev/shm", os.W_OK) else tempfile.gettempdir()
        _sweep_stale(base)
        _SCRATCH = tempfile.mkdtemp(prefix=f"jasm-verif-{os.getpid()}-", dir=base)
        _SCRATCH_PID[0] = os.getpid()
    return _SCRATCH


_SCRATCH_PID = [None]


def _sweep_stale(base):
    """Remove scratch directories left behind by harness processes that were killed (their pid is gone)."""
    try:
        for name in os.listdir(base):
            if not name.startswith("jasm-verif-"):
                continue
            parts = name.split("-")
            if len(parts) < 4 or not parts[2].isdigit():
                continue
            if os.path.exists(f"/proc/{parts[2]}"):
                continue
            shutil.rmtree(os.path.join(base, name), ignore_errors=True)
    except OSError:
        pass


def cleanup_scratch() -> None:
    global _SCRATCH
    if _SCRATCH and _SCRATCH_PID[0] == os.getpid():
        shutil.rmtree(_SCRATCH, ignore_errors=True)
        _SCRATCH = None


def enc_content(c):
    """File content for JSON: str stays str, bytes become {"b64":...}, {"symlink": target} passes through."""
    if isinstance(c, dict):
        return c
    if isinstance(c, bytes) and len(c) > (1 << 20):
        import zlib
        return {"zb64": base64.b64encode(zlib.compress(c, 6)).decode()}
    if isinstance(c, bytes):
        try:
            s = c.decode("utf-8")
            if s.encode("utf-8") == c and "\x00" not in s:
                return s
        except UnicodeDecodeError:
            pass
        return {"b64": base64.b64encode(c).decode()}
    return c


def dec_content(c) -> bytes:
    if isinstance(c, dict) and "zb64" in c:
        import zlib
        return zlib.decompress(base64.b64decode(c["zb64"]))
    if isinstance(c, dict) and "b64" in c:
        return base64.b64decode(c["b64"])
    if isinstance(c, str):
        return c.encode("utf-8")
    if isinstance(c, bytes):
        return c
    raise TypeError(type(c))


def eprint(*a, **k):
    print(*a, file=sys.stderr, **k)
    sys.stderr.flush()
