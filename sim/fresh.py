"""Run an op list in THIS (fresh) interpreter, without forking: used by the self-test to show that a
pristine forked child behaves exactly like a fresh interpreter.

usage: python -m sim.fresh <world-root> <ops.json>   -> prints the outcomes as one JSON line"""
from __future__ import annotations

import json
import sys

from . import exec as ex


def main():
    root, opsfile = sys.argv[1], sys.argv[2]
    ex.bootstrap()
    from . import child
    with open(opsfile) as fh:
        ops = json.load(fh)
    real_stdout = sys.stdout
    res = child.child_main(root, ops, 0, None)
    real_stdout.write(json.dumps({"outcomes": res["outcomes"], "fired": res["fired"]}) + "\n")
    real_stdout.flush()


if __name__ == "__main__":
    main()
