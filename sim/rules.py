"""Rule documents: construction of rules that should match a given listing, and the
catalogue of *document faults* (one structural edit of a valid rule each).

A rule is a plain Python structure (dict/list/str/int) dumped to YAML text."""
from __future__ import annotations

import copy

import yaml

from . import gen

JUMPS = ["call", "callq", "jmp", "jne", "je", "jg", "jge", "jl", "jle", "jz", "jnz"]
DECOY_MN = ["fxsave", "vpxor", "cpuid", "rdtsc", "syscall", "pause", "wbinvd"]
DECOY_OP = ["%xmm7", "%cr3", "%st7", "0x7e57"]
ANY_OP = "[^, ]{0,1000}"


def _is_hexstr(s):
    try:
        int(s, 16)
        return True
    except (ValueError, TypeError):
        return False


def build_found_rule(rng, decoded, features=None, sections=None, binary=False, macro_dir="macros"):
    """(rule_doc, macro_files{rel: doc}, macros_arg[list rel], info) for a window of `decoded`.

    `features` is the swarm mask: a set of names out of FEATURES; None = draw one."""
    usable = [i for i, (_a, mn, _o) in enumerate(decoded) if mn is not None]
    if len(usable) < 3:
        return None
    if features is None:
        features = {f for f in FEATURES if rng.random() < 0.5}
    n = rng.randrange(3, 8)
    # a window of consecutive usable instructions
    starts = [i for i in usable if all((i + k) in usable for k in range(min(n, 3)))]
    if not starts:
        return None
    s = rng.choice(starts)
    win = []
    i = s
    while i < len(decoded) and len(win) < n and decoded[i][1] is not None:
        win.append(decoded[i])
        i += 1
    if len(win) < 2:
        return None
    full = "fullnames" in features
    substr_ok = not full
    cfg = {}
    items = []
    var = None
    prev = None
    for (addr, mn, ops) in win:
        it = None
        if "valid_addr" in features and mn in JUMPS and ops and _is_hexstr(ops[0]) and var is None:
            t = int(ops[0], 16)
            lo, hi = max(0, t - rng.randrange(0, 0x40)), t + rng.randrange(0, 0x40)
            var = {"min": "0x%x" % lo, "max": "0x%x" % hi}
            it = {gen.mnemonic_name(rng, mn, substr_ok): ["valid_addr"]}
        if it is None:
            it = gen.instr_item(rng, mn, ops, substr_ok=substr_ok)
        if it is None:
            it = ANY_ITEM
        # the same instruction as the one before it gets the same item: a run the `times` step below can collapse
        if items and prev == (mn, ops) and items[-1] is not ANY_ITEM and it is not ANY_ITEM and "valid_addr" not in str(it):
            it = copy.deepcopy(items[-1])
        prev = (mn, ops)
        items.append(it)
    if var:
        cfg["valid_addr_range"] = var

    used_any_item = any(it is ANY_ITEM for it in items)
    macros_infile = []
    macro_files = {}
    items = [copy.deepcopy(it) if it is not ANY_ITEM else "@anyins" for it in items]
    if used_any_item:
        features = set(features) | {"macros"}
        macros_infile.append({"name": "@anyins", "pattern": "[^, |]{0,100}"})

    # ---- run-length: collapse a run of identical items into one item with `times`
    if "times" in features:
        j = 0
        out = []
        while j < len(items):
            k = j
            one_key_dict = isinstance(items[j], dict) and len(items[j]) == 1 and isinstance(next(iter(items[j].values())), list)
            while k + 1 < len(items) and items[k + 1] == items[j] and (isinstance(items[j], str) or one_key_dict):
                k += 1
            run = k - j + 1
            if run >= 2:
                c = rng.randrange(3)
                t = run if c == 0 else ({"min": rng.randrange(1, run + 1), "max": run + rng.randrange(0, 2)} if c == 1 else {"min": run, "max": run})
                if one_key_dict:
                    out.append({**copy.deepcopy(items[j]), "times": t})  # name + operands: the sibling spelling
                else:
                    out.append({items[j]: {"times": t}})
            else:
                it = items[j]
                if rng.random() < 0.3:
                    t = rng.choice([1, {"min": 1, "max": 1}, {"min": 1, "max": 2}])
                    if isinstance(it, str):
                        it = {it: {"times": t}}
                    elif isinstance(it, dict) and len(it) == 1:
                        it = dict(it)
                        it["times"] = t  # sibling spelling
                out.append(it)
            j = k + 1
        items = out

    # ---- groups
    def plain(ix):
        return 0 <= ix < len(items)

    if "or" in features and items:
        ix = rng.randrange(len(items))
        alts = [items[ix], rng.choice(DECOY_MN)]
        rng.shuffle(alts)
        items[ix] = {"$or": alts}
    if "and" in features and len(items) >= 3:
        ix = rng.randrange(len(items) - 1)
        items[ix:ix + 2] = [{"$and": [items[ix], items[ix + 1]]}]
    if "any_order" in features and len(items) >= 3:
        ix = rng.randrange(len(items) - 1)
        items[ix:ix + 2] = [{"$and_any_order": [items[ix + 1], items[ix]]}]
    if "not" in features and len(items) >= 2:
        ix = rng.randrange(len(items))
        items[ix] = {"$not": [rng.choice(DECOY_MN)]}
    if "op_not" in features and items:
        last = items[-1]
        if isinstance(last, dict) and len(last) == 1:
            k0 = next(iter(last))
            if isinstance(last[k0], list) and last[k0] and not k0.startswith("$"):
                last[k0][-1] = {"$not": [rng.choice(DECOY_OP)]}
    if "op_or" in features:
        for it in items:
            if isinstance(it, dict) and len(it) == 1:
                k0 = next(iter(it))
                if isinstance(it[k0], list) and it[k0] and not k0.startswith("$") and isinstance(it[k0][0], str) and it[k0][0] != "valid_addr":
                    alts = [it[k0][0], rng.choice(DECOY_OP)]
                    rng.shuffle(alts)
                    it[k0][0] = {"$or": alts}
                    break
    if "capture" in features:
        for it in items:
            if isinstance(it, dict) and len(it) == 1:
                k0 = next(iter(it))
                if isinstance(it[k0], list) and it[k0] and not k0.startswith("$") and isinstance(it[k0][-1], str) and it[k0][-1] != "valid_addr":
                    it[k0][-1] = "&cap%d" % rng.randrange(1, 4)
                    break

    # ---- macros
    macros_arg = []
    if "macro_substr" in features or "macro_args" in features or "macro_files" in features:
        features = set(features) | {"macros"}
    if "macros" in features:
        # whole-item macro
        cands = [ix for ix, it in enumerate(items) if isinstance(it, (str, dict)) and not (isinstance(it, str) and it.startswith("@"))]
        if cands:
            ix = rng.choice(cands)
            body = items[ix]
            if isinstance(body, str):
                macros_infile.append({"name": "@m_item", "pattern": body})
            else:
                macros_infile.append({"name": "@m_item", "pattern": [body]})
            items[ix] = "@m_item"
        # operand macro (string substitution in operand position)
        for it in items:
            if isinstance(it, dict) and len(it) == 1:
                k0 = next(iter(it))
                if isinstance(it[k0], list) and it[k0] and not k0.startswith("$") and isinstance(it[k0][0], str) and not it[k0][0].startswith("&") and it[k0][0] != "valid_addr" and not full:
                    macros_infile.append({"name": "@anyop", "pattern": ANY_OP})
                    it[k0][0] = "@anyop"
                    break
        # a string macro used INSIDE a longer name ("%r@sfx" with @sfx = "ax")
        if "macro_substr" in features:
            done_sub = False
            for it in items:
                if done_sub:
                    break
                if isinstance(it, dict) and len(it) == 1:
                    k0 = next(iter(it))
                    v = it[k0]
                    if isinstance(v, list) and not k0.startswith(("$", "@")):
                        for j, o in enumerate(v):
                            if isinstance(o, str) and len(o) >= 3 and gen._SAFE.match(o) and o[0] == "%":
                                cut = rng.randrange(2, len(o))
                                macros_infile.append({"name": "@sfx", "pattern": o[cut:]})
                                v[j] = o[:cut] + "@sfx"
                                done_sub = True
                                break
            if not done_sub:
                for ix, it in enumerate(items):
                    if isinstance(it, str) and len(it) >= 3 and gen._SAFE.match(it) and not it.startswith("@"):
                        cut = rng.randrange(1, len(it))
                        macros_infile.append({"name": "@msfx", "pattern": it[cut:]})
                        items[ix] = it[:cut] + "@msfx"
                        break
        # parameterised macro
        if "macro_args" in features:
            for ix, it in enumerate(items):
                if isinstance(it, dict) and len(it) == 1:
                    k0 = next(iter(it))
                    v = it[k0]
                    if isinstance(v, list) and v and not k0.startswith("$") and all(isinstance(x, str) and not x.startswith(("@", "&")) and x != "valid_addr" for x in v):
                        pos = rng.randrange(len(v))
                        body_ops = list(v)
                        actual = body_ops[pos]
                        body_ops[pos] = "marg1"
                        macros_infile.append({
                            "name": "@m_args", "args": ["marg1"],
                            "pattern": [{"$or": [{k0: body_ops}, {rng.choice(DECOY_MN): ["marg1"]}]}],
                        })
                        items[ix] = {"@m_args": None, "marg1": actual}
                        break
        # some of the definitions move to --macros files
        if "macro_files" in features and macros_infile:
            nfiles = rng.randrange(1, 3)
            split = [[] for _ in range(nfiles)]
            keep = []
            if rng.random() < 0.4:
                # every definition comes from one command-line file: the rule has no macros section
                nfiles = 1
                split = [list(macros_infile)]
            else:
                for m in macros_infile:
                    c = rng.randrange(nfiles + 1)
                    (keep if c == nfiles else split[c]).append(m)
                if not any(split):
                    split[0], keep = keep, []
            if rng.random() < 0.2:
                # the same definitions are ALSO given inline: the files are, strictly speaking, not needed
                keep = keep + [copy.deepcopy(m) for ms in split for m in ms]
            for fi, ms in enumerate(split):
                rel = f"{macro_dir}/m{fi}.yaml"
                # an unrelated definition so that the file is never empty of macros
                ms = ms + [{"name": f"@unused{fi}", "pattern": "nop"}]
                macro_files[rel] = {"macros": ms}
                macros_arg.append(rel)
            macros_infile = keep

    # ---- config
    if full:
        cfg["mnemonics-full-match"] = True
        cfg["operands-full-match"] = True
    else:
        if "cfg_flags" in features:
            cfg["mnemonics-full-match"] = False
            cfg["operands-full-match"] = False
    if "cfg_style" in features:
        cfg["style"] = "att"
    if sections is not None:
        cfg["sections"] = list(sections)
    elif "cfg_sections" in features and not binary:
        cfg["sections"] = rng.choice([[], [".text"], [".text", ".plt"]])
    if "cfg_plugins" in features:
        cfg["plugins"] = None

    doc = {}
    if cfg:
        doc["config"] = cfg
    if macros_infile:
        doc["macros"] = macros_infile
    doc["pattern"] = items
    if cfg and rng.random() < 0.3:  # key order of the document is free
        doc = {"pattern": doc.pop("pattern"), **doc}
    win_ops = []
    for (_a, _mn, ops) in win:
        for o in ops:
            pat_o = gen.operand_pattern(rng, o, substr_ok=False)
            if isinstance(pat_o, str) and pat_o not in win_ops:
                win_ops.append(pat_o)
    info = {"window": [w[0] for w in win], "features": sorted(features), "n_items": len(items),
            "win_mn": sorted({w[1] for w in win if gen._SAFE.match(w[1])}), "win_ops": win_ops[:8]}
    return doc, macro_files, macros_arg, info


ANY_ITEM = object()
FEATURES = ["fullnames", "valid_addr", "times", "or", "and", "any_order", "not", "op_not", "op_or", "capture",
            "macros", "macro_args", "macro_files", "macro_substr", "cfg_flags", "cfg_style", "cfg_sections", "cfg_plugins"]


# ===================================================================== D-faults
def _walk(node, path=()):
    """Yield (path, node) for every node of a pattern structure."""
    yield path, node
    if isinstance(node, dict):
        for k, v in node.items():
            yield from _walk(v, path + (k,))
    elif isinstance(node, list):
        for i, v in enumerate(node):
            yield from _walk(v, path + (i,))


def _get(doc, path):
    for p in path:
        doc = doc[p]
    return doc


def _set(doc, path, value):
    for p in path[:-1]:
        doc = doc[p]
    doc[path[-1]] = value


def _edit(doc, path, value):
    d = copy.deepcopy(doc)
    _set(d, path, value)
    return d


def _certified_malformed(text):
    """Malformed for every YAML loader at hand - the pure-Python one and, where present, libyaml's. A document
    on which they disagree (a TAB inside a plain scalar: the specification allows it, libyaml loads it, the
    pure-Python scanner rejects it) is not certified: calling it malformed would bind JASM to one loader."""
    loaders = [yaml.SafeLoader] + ([yaml.CSafeLoader] if hasattr(yaml, "CSafeLoader") else [])
    for loader in loaders:
        try:
            yaml.load(text, Loader=loader)  # noqa: S506 - safe loaders only
        except Exception:  # noqa: BLE001
            continue
        return False
    return True


GROUPS = ("$and", "$or", "$not", "$and_any_order")


def _is_instr_item_pos(path):
    """True when `path` (inside doc['pattern'] or a macro body) addresses an instruction-level list item."""
    # instruction level = reached through lists and group keys only
    for p in path:
        if isinstance(p, str) and p not in GROUPS:
            return False
    return True


def doc_faults(rng, rule_doc, macro_files, rule_rel="rule.yaml", max_per_kind=6, hints=None):
    """Every applicable single edit: list of dict(label, target, content[str], klass).

    `target` is the file the faulted document is delivered for (the rule or a macro file)."""
    out = []
    text = gen.dump_yaml(rule_doc)

    def add(label, doc=None, raw=None, target=rule_rel, klass=None):
        content = raw if raw is not None else gen.dump_yaml(doc)
        out.append({"label": label, "target": target, "content": content, "klass": klass or label.split("@")[0]})

    # ---- the document as a whole
    cands = []
    lines = text.split("\n")
    cands.append(("malformed:unclosed_flow", text + "zzz: [unclosed, flow\n"))
    cands.append(("malformed:bad_indent", text + "pattern2:\n    - a\n  - b\n"))
    tl = [i for i, ln in enumerate(lines) if ln.startswith("  ")]
    if tl:
        i = rng.choice(tl)
        cands.append(("malformed:tab_indent", "\n".join(lines[:i] + ["\t" + lines[i][2:]] + lines[i + 1:])))
    cands.append(("malformed:garbage_line", text + "}{ : : [\n"))
    cands.append(("malformed:unterminated_quote", text + 'zzz: "never closed\n'))
    cands.append(("malformed:two_documents", text + "---\n" + text))
    cands.append(("malformed:bad_escape", text + 'zzz: "bad \\q escape"\n'))
    cuts = sorted({rng.randrange(1, max(2, len(text))) for _ in range(8)} | {max(1, len(text) - k) for k in (1, 2, 3, 5)})
    ncut = 0
    for c in cuts:
        if ncut >= 3:
            break
        t = text[:c]
        if _certified_malformed(t):
            cands.append((f"malformed:torn@{c}", t))
            ncut += 1
    # a document separator in front of a top-level section: a YAML stream of two documents
    tops = [i for i, ln in enumerate(lines) if ln and not ln[0].isspace() and ln[0] not in "-#" and ":" in ln]
    for i in tops[1:]:
        cands.append((f"malformed:doc_separator_before_{lines[i].split(':')[0]}", "\n".join(lines[:i] + ["---"] + lines[i:])))
    for label, t in cands:
        if _certified_malformed(t):
            add(label, raw=t, klass="malformed")
    add("empty_doc", raw="", klass="doc_shape")
    add("scalar_doc", raw="just a scalar\n", klass="doc_shape")
    add("list_doc", raw="- pattern\n- push\n", klass="doc_shape")
    add("list_of_one_mapping_doc", raw="".join(("- " if i == 0 else "  ") + ln + "\n" for i, ln in enumerate(text.rstrip("\n").split("\n"))), klass="doc_shape")

    # ---- pattern entry
    d = copy.deepcopy(rule_doc)
    d.pop("pattern", None)
    add("pattern_missing", d, klass="pattern_entry")
    add("pattern_null", _edit(rule_doc, ("pattern",), None), klass="pattern_entry")
    add("pattern_scalar", _edit(rule_doc, ("pattern",), "push"), klass="pattern_entry")
    add("pattern_int", _edit(rule_doc, ("pattern",), 7), klass="pattern_entry")
    add("pattern_empty_list", _edit(rule_doc, ("pattern",), []), klass="pattern_entry")

    # ---- config entry
    for lab, val in (("empty_str", ""), ("empty_list", []), ("zero", 0), ("false", False)):
        add(f"config_falsy_{lab}", {**rule_doc, "config": val}, klass="config_entry")
    add("config_scalar", {**rule_doc, "config": "att"}, klass="config_entry")
    add("config_list", {**rule_doc, "config": ["style", "att"]}, klass="config_entry")
    add("config_null", {**rule_doc, "config": None}, klass="config_entry")
    base_cfg = dict(rule_doc.get("config") or {})

    def cfg_with(**kv):
        c = dict(base_cfg)
        for k, v in kv.items():
            c[k.replace("_", "-") if k.endswith("match") else k] = v
        return {**rule_doc, "config": c}

    for key, short in (("mnemonics-full-match", "mfm"), ("operands-full-match", "ofm")):
        for lab, val in (("str", "false"), ("int", 1), ("null", None), ("list", [True])):
            c = dict(base_cfg)
            c[key] = val
            add(f"{short}_{lab}", {**rule_doc, "config": c}, klass="config_flag_type")
    for lab, val in (("str", ".text"), ("nonstr_items", [1, 2]), ("mapping", {".text": True}), ("int", 3), ("null", None), ("mixed_items", [".text", None]), ("bool_items", [True])):
        c = dict(base_cfg)
        c["sections"] = val
        add(f"sections_{lab}", {**rule_doc, "config": c}, klass="config_sections_type")
    for lab, val in (("scalar", "0x1000-0x2000"), ("badhex", {"min": "zz", "max": "0x10"}), ("minonly", {"min": "0x10"}),
                     ("int_values", {"min": 4096, "max": 8192}), ("list", ["0x10", "0x20"])):
        c = dict(base_cfg)
        c["valid_addr_range"] = val
        add(f"var_{lab}", {**rule_doc, "config": c}, klass="config_range_type")

    # ---- inside the pattern (and inside macro bodies held in the rule file)
    pat = rule_doc.get("pattern")
    nodes = list(_walk(pat, ("pattern",)))
    counts = {}

    def room(kind):
        counts[kind] = counts.get(kind, 0) + 1
        return counts[kind] <= max_per_kind

    for path, node in nodes:
        if not isinstance(node, dict):
            continue
        level = "ins" if _is_instr_item_pos(path[1:]) else "op"
        for g in GROUPS:
            if g in node and isinstance(node[g], list):
                if room(f"empty_group:{g}:{level}"):
                    add(f"empty_group:{g}:{level}@{_p(path)}", _edit(rule_doc, path + (g,), []), klass="empty_group")
                if room(f"null_group:{g}:{level}"):
                    add(f"null_group:{g}:{level}@{_p(path)}", _edit(rule_doc, path + (g,), None), klass="empty_group")
        if "$not" in node and isinstance(node["$not"], list) and node["$not"]:
            child = node["$not"][0]
            for k in (2, 3):
                if room(f"not_arity:{k}:{level}"):
                    extra = [copy.deepcopy(child) for _ in range(k - 1)]
                    add(f"not_arity:{k}:{level}@{_p(path)}", _edit(rule_doc, path + ("$not",), [copy.deepcopy(child)] + extra), klass="not_arity")
            # extra arguments that name what the window really contains: an implementation that
            # invents a meaning for them ("none of these", "the last one") flips the verdict
            names = list((hints or {}).get("win_mn" if level == "ins" else "win_ops") or [])
            if names:
                if room(f"not_arity:n_after:{level}"):
                    add(f"not_arity:n_after:{level}@{_p(path)}", _edit(rule_doc, path + ("$not",), [copy.deepcopy(child)] + names), klass="not_arity")
                if room(f"not_arity:n_before:{level}"):
                    add(f"not_arity:n_before:{level}@{_p(path)}", _edit(rule_doc, path + ("$not",), names + [copy.deepcopy(child)]), klass="not_arity")
        if "$deref" in node and isinstance(node["$deref"], dict) and node["$deref"].get("main_reg") is not None:
            if room("deref_field_type"):
                add(f"deref_field_type:main_reg_empty_list@{_p(path)}", _edit(rule_doc, path + ("$deref", "main_reg"), []), klass="deref_field_type")
                add(f"deref_field_type:deref_list@{_p(path)}", _edit(rule_doc, path + ("$deref",), [node["$deref"]["main_reg"]]), klass="deref_field_type")
        if "$deref" in node and isinstance(node["$deref"], dict):
            dd = dict(node["$deref"])
            dd.pop("main_reg", None)
            if room("deref_no_main_reg:rest"):
                add(f"deref_no_main_reg:rest@{_p(path)}", _edit(rule_doc, path + ("$deref",), dd), klass="deref_no_main_reg")
            if room("deref_no_main_reg:empty"):
                add(f"deref_no_main_reg:empty@{_p(path)}", _edit(rule_doc, path + ("$deref",), {}), klass="deref_no_main_reg")

    # the same faults one level deeper: a faulty group wrapped around / put next to a healthy node
    if isinstance(pat, list):
        ins_nodes = [(pth, nd) for pth, nd in nodes if len(pth) >= 2 and isinstance(pth[-1], int) and _is_instr_item_pos(pth[1:]) and isinstance(nd, (str, dict))
                     and not (isinstance(nd, str) and nd.startswith("&"))]
        op_nodes = [(pth, nd) for pth, nd in nodes if len(pth) >= 3 and isinstance(pth[-1], int) and not _is_instr_item_pos(pth[1:])
                    and isinstance(nd, str) and not nd.startswith(("&", "@")) and "$deref" not in pth]
        rng.shuffle(ins_nodes)
        rng.shuffle(op_nodes)
        for pth, nd in ins_nodes[:2]:
            x = copy.deepcopy(nd)
            add(f"empty_group:nested:$or_in_$and:ins@{_p(pth)}", _edit(rule_doc, pth, {"$and": [x, {"$or": []}]}), klass="empty_group")
            add(f"empty_group:nested:$and_in_$or:ins@{_p(pth)}", _edit(rule_doc, pth, {"$or": [{"$and": []}, x]}), klass="empty_group")
            add(f"empty_group:nested:$not_in_$or:ins@{_p(pth)}", _edit(rule_doc, pth, {"$or": [x, {"$not": []}]}), klass="empty_group")
            add(f"empty_group:nested:$any_order_in_$and:ins@{_p(pth)}", _edit(rule_doc, pth, {"$and": [{"$and_any_order": []}, x]}), klass="empty_group")
            add(f"not_arity:nested:2_in_$or:ins@{_p(pth)}", _edit(rule_doc, pth, {"$or": [{"$not": [rng.choice(DECOY_MN), rng.choice(DECOY_MN)]}, x]}), klass="not_arity")
            add(f"not_arity:nested:2_in_$and:ins@{_p(pth)}", _edit(rule_doc, pth, {"$and": [x, {"$not": [rng.choice(DECOY_MN)] + list((hints or {}).get("win_mn") or [rng.choice(DECOY_MN)])}]}), klass="not_arity")
            add(f"times_negative:nested:in_$or:ins@{_p(pth)}", _edit(rule_doc, pth, {"$or": [x, {rng.choice(DECOY_MN): {"times": -1}}], "times": -2}), klass="times_negative")
        for pth, nd in op_nodes[:2]:
            add(f"empty_group:nested:$and_in_$or:op@{_p(pth)}", _edit(rule_doc, pth, {"$or": [nd, {"$and": []}]}), klass="empty_group")
            add(f"empty_group:nested:$or_in_$and:op@{_p(pth)}", _edit(rule_doc, pth, {"$and": [{"$or": []}, nd]}), klass="empty_group")
            add(f"not_arity:nested:2_in_$or:op@{_p(pth)}", _edit(rule_doc, pth, {"$or": [{"$not": [rng.choice(DECOY_OP), nd]}, nd]}), klass="not_arity")
            add(f"deref_no_main_reg:new:op@{_p(pth)}", _edit(rule_doc, pth, {"$deref": {"constant_offset": "0x10", "register_multiplier": "%rax", "constant_multiplier": 4}}), klass="deref_no_main_reg")
        for pth, nd in nodes:
            if isinstance(nd, dict) and isinstance(nd.get("$deref"), dict) and nd["$deref"].get("main_reg") is not None:
                if room("nested_in_deref"):
                    add(f"empty_group:nested:in_deref@{_p(pth)}", _edit(rule_doc, pth + ("$deref", "main_reg"), [{"$or": []}]), klass="empty_group")
                    add(f"not_arity:nested:in_deref@{_p(pth)}", _edit(rule_doc, pth + ("$deref", "main_reg"), [{"$not": ["%xmm7", nd["$deref"]["main_reg"]]}]), klass="not_arity")

    if isinstance(pat, list) and pat:
        for g in ("$or", "$and", "$and_any_order", "$not"):
            add(f"empty_group:appended_last:{g}", _edit(rule_doc, ("pattern",), list(copy.deepcopy(pat)) + [{g: []}]), klass="empty_group")
            add(f"empty_group:prepended_first:{g}", _edit(rule_doc, ("pattern",), [{g: []}] + list(copy.deepcopy(pat))), klass="empty_group")

    # times: on every instruction-level item of the top-level pattern and of groups
    if isinstance(pat, list):
        item_paths = []
        for path, node in nodes:
            if len(path) >= 2 and isinstance(path[-1], int) and _is_instr_item_pos(path[1:]) and isinstance(node, (str, dict)):
                item_paths.append((path, node))
        rng.shuffle(item_paths)

        def _repeats(node):  # items that really stand for a run come first: ignoring their `times` changes the verdict
            t = node.get("times") if isinstance(node, dict) else None
            if t is None and isinstance(node, dict) and len(node) == 1 and isinstance(next(iter(node.values())), dict):
                t = next(iter(node.values())).get("times")
            lo = t if isinstance(t, int) else (t.get("min", 1) if isinstance(t, dict) else 1)
            return 0 if isinstance(lo, int) and lo >= 2 else 1

        item_paths_t = sorted(item_paths, key=lambda pn: _repeats(pn[1]))
        # `times` of another type than int / mapping (bool excluded: see DESIGN section 5, observation 4a)
        odd_times = [("str", "2"), ("float", 2.5), ("list", [2]), ("minstr", {"min": "1", "max": 2})]
        for path, node in item_paths_t[:3]:
            if isinstance(node, str) and node.startswith(("&",)):
                continue
            shape = _item_shape(node)
            for (lab, tv) in odd_times:
                for spelling in ("inner", "sibling"):
                    new = _with_times(node, tv, spelling)
                    if new is not None and room(f"times_type:{lab}:{spelling}"):
                        add(f"times_type:{lab}:{spelling}:{shape}@{_p(path)}", _edit(rule_doc, path, new), klass="times_type")
        bad_times = [
            ("negative:int", -1), ("negative:int", -3), ("negative:min", {"min": -1, "max": 2}), ("negative:max", {"min": 0, "max": -1}),
            ("negative:both", {"min": -2, "max": -1}), ("inverted", {"min": 3, "max": 1}), ("inverted", {"min": 2, "max": 0}),
            ("inverted", {"min": 9, "max": 8}), ("inverted", {"min": 40, "max": 39}), ("negative:equal", {"min": -2, "max": -2}),
            ("negative:minonly", {"min": -2}), ("negative:maxonly", {"max": -1}), ("negative:min_maxnull", {"min": -3, "max": None}),
        ]
        for path, node in item_paths:
            if isinstance(node, str) and node.startswith(("&",)):
                continue
            shape = _item_shape(node)
            for (lab, tv) in bad_times:
                for spelling in ("inner", "sibling"):
                    new = _with_times(node, tv, spelling)
                    if new is None:
                        continue
                    key = f"times_{lab}:{spelling}:{shape}"
                    if room(key):
                        add(f"{key}@{_p(path)}", _edit(rule_doc, path, new), klass="times_" + lab.split(":")[0])

    # ---- macros
    have_defs = bool(rule_doc.get("macros")) or bool(macro_files)
    if have_defs:
        UNDEF = rng.choice(["@never_defined", "@rax", "@m1", "@r8d", "@any_", "@x", "@plt_call", "@got_load", "@GLIBC_2", "@PLT0", "@tpoff_x", "@gcc_v"])
        done = set()
        for path, node in nodes:
            if len(path) < 2:
                continue
            if isinstance(path[-1], int) and isinstance(node, (str, dict)):
                lvl = "item" if _is_instr_item_pos(path[1:]) else "operand"
                if lvl not in done or room(f"undef:{lvl}"):
                    done.add(lvl)
                    add(f"undefined_macro:{lvl}@{_p(path)}", _edit(rule_doc, path, UNDEF), klass="undefined_macro")
                if lvl == "item" and room("undef:key_body"):
                    add(f"undefined_macro:key_times@{_p(path)}", _edit(rule_doc, path, {UNDEF: {"times": 1}}), klass="undefined_macro")
                if lvl == "item" and room("undef:key_ops"):
                    add(f"undefined_macro:key_ops@{_p(path)}", _edit(rule_doc, path, {UNDEF: ["%rax"]}), klass="undefined_macro")
                if lvl == "item" and room("undef:key_args"):
                    add(f"undefined_macro:key_args@{_p(path)}", _edit(rule_doc, path, {UNDEF: None, "marg1": "%rax"}), klass="undefined_macro")
            if isinstance(path[-1], str) and path[-2:-1] == ("$deref",) and isinstance(node, (str, int)):
                if room("undef:deref_value"):
                    add(f"undefined_macro:deref_value@{_p(path)}", _edit(rule_doc, path, UNDEF), klass="undefined_macro")
            # inside a longer name, where string macros are substituted as substrings
            if isinstance(path[-1], int) and isinstance(node, str) and not node.startswith(("@", "&")) and gen._SAFE.match(node.replace("@", "")):
                lvl = "mnemonic" if _is_instr_item_pos(path[1:]) else "operand"
                if room(f"undef:substring:{lvl}"):
                    cut = rng.randrange(1, max(2, len(node)))
                    add(f"undefined_macro:substring_{lvl}@{_p(path)}", _edit(rule_doc, path, node[:cut] + UNDEF), klass="undefined_macro")
            # as the argument of a parameterised macro call
            if isinstance(node, dict) and len(node) > 1 and any(isinstance(k, str) and k.startswith("@") for k in node):
                for k in node:
                    if not k.startswith("@") and k != "times" and room("undef:macro_arg"):
                        add(f"undefined_macro:macro_arg@{_p(path)}", _edit(rule_doc, path + (k,), UNDEF), klass="undefined_macro")
        # inside macro bodies (rule file and macro files), for macros that are actually used
        used = {n for _p2, n in nodes if isinstance(n, str) and n.startswith("@")} | {k for _p2, n in nodes if isinstance(n, dict) for k in n if isinstance(k, str) and k.startswith("@")}
        sources = [(rule_rel, rule_doc)] + [(rel, md) for rel, md in sorted(macro_files.items())]
        for rel, srcdoc in sources:
            ms = srcdoc.get("macros") or []
            for mi, m in enumerate(ms):
                if m.get("name") not in used:
                    continue
                body = m.get("pattern")
                pos = "last" if (rel == rule_rel and mi == len(ms) - 1) else "notlast"
                if isinstance(body, str):
                    add(f"undefined_macro:body_str:{pos}@{rel}:{mi}", _edit(srcdoc, ("macros", mi, "pattern"), UNDEF), target=rel, klass="undefined_macro")
                elif isinstance(body, list) and body:
                    add(f"undefined_macro:body_list:{pos}@{rel}:{mi}", _edit(srcdoc, ("macros", mi, "pattern"), [UNDEF]), target=rel, klass="undefined_macro")
                    if isinstance(body[0], dict) and "$or" in body[0]:
                        add(f"undefined_macro:body_or:{pos}@{rel}:{mi}", _edit(srcdoc, ("macros", mi, "pattern"), [{"$or": [UNDEF, UNDEF]}]), target=rel, klass="undefined_macro")
        # shape of the macro section / macro files
        if rule_doc.get("macros"):
            add("macros_not_list:str", _edit(rule_doc, ("macros",), "@m_item"), klass="macros_shape")
            add("macros_not_list:mapping", _edit(rule_doc, ("macros",), {"name": "@m_item", "pattern": "push"}), klass="macros_shape")
            for mi, m in enumerate(rule_doc["macros"]):
                if m.get("name") in used:
                    add(f"macro_name_without_at@{mi}", _edit(rule_doc, ("macros", mi, "name"), m["name"][1:]), klass="macros_shape")
                    mm = dict(m)
                    mm.pop("pattern", None)
                    add(f"macro_without_pattern@{mi}", _edit(rule_doc, ("macros", mi), mm), klass="macros_shape")
                    break
        for rel, md in sorted(macro_files.items()):
            add(f"macro_file_without_macros_key@{rel}", {"something": 1}, target=rel, klass="macro_file_shape")
            add(f"macro_file_empty@{rel}", raw="", target=rel, klass="macro_file_shape")
            add(f"macro_file_scalar@{rel}", raw="macros\n", target=rel, klass="macro_file_shape")
            if _certified_malformed(gen.dump_yaml(md) + "}{ : [\n"):
                add(f"macro_file_malformed@{rel}", raw=gen.dump_yaml(md) + "}{ : [\n", target=rel, klass="malformed")
            add(f"macro_file_macros_null@{rel}", {"macros": None}, target=rel, klass="macro_file_shape")
    return out


def _p(path):
    return "/".join(str(x) for x in path[1:])


def _item_shape(node):
    if isinstance(node, str):
        return "macro" if node.startswith("@") else "name"
    k0 = next(iter(node))
    if k0 in GROUPS:
        return k0
    if k0.startswith("@"):
        return "macrocall"
    v = node[k0]
    if isinstance(v, list):
        return "name+ops"
    return "name+body"


def _with_times(node, tv, spelling):
    """`node` with a `times` of value tv in the given spelling, or None when that spelling does not exist for it."""
    if isinstance(node, str):
        if node.startswith("@"):
            return {node: {"times": tv}} if spelling == "inner" else None
        return {node: {"times": tv}} if spelling == "inner" else None
    node = copy.deepcopy(node)
    k0 = next(iter(node))
    v = node[k0]
    if k0.startswith("@") and len(node) > 1 and "times" not in node:
        return None  # a macro call with arguments: sibling keys are arguments
    if spelling == "sibling":
        if isinstance(v, dict) and "times" in v:
            return None
        if v is None:
            return None
        node["times"] = tv
        return node
    # inner spelling: only when the body is a mapping (or absent)
    if isinstance(v, dict) and k0 != "$deref":
        if "times" in node:
            return None
        v["times"] = tv
        return node
    return None
