"""Code that runs inside a forked, pristine child: the simulated process.

The child owns one `Sim` object: event log, virtual clock, the fault plan of the
operation in progress, and the seams (open / exists / mkdir / Popen / regex /
datetime / argv / stdio) through which JASM reaches the outside world.

Real components: JASM itself, PyYAML, the `regex` engine, `subprocess` (only
`Popen` is subclassed), the filesystem under the world directory, objdump.
Stubbed: the *faults* (errno returns, a peer program that fails, a scan that
exceeds its deadline) and the process boundary of the CLI (argv/stdio/exit)."""
from __future__ import annotations

import builtins
import errno
import hashlib
import io
import os
import random
import re
import shutil
import subprocess
import sys
import traceback

from . import util

_REAL_OPEN = builtins.open
_REAL_POPEN = subprocess.Popen
_REAL_MKDIR = os.mkdir
_REAL_OS_PATH_EXISTS = os.path.exists
_REAL_OS_PATH_ISFILE = os.path.isfile

OPEN_ERRNOS = {
    "eacces": errno.EACCES,
    "emfile": errno.EMFILE,
    "enfile": errno.ENFILE,
    "eio_open": errno.EIO,
    "eperm": errno.EPERM,
    "eloop": errno.ELOOP,
    "enomem_open": errno.ENOMEM,
}
MKDIR_ERRNOS = {"log_mkdir_eacces": errno.EACCES, "log_mkdir_enospc": errno.ENOSPC, "log_mkdir_erofs": errno.EROFS}
SPAWN_RAISE = {
    "prog_absent": (FileNotFoundError, errno.ENOENT),
    "prog_eacces": (PermissionError, errno.EACCES),
    "fork_enomem": (OSError, errno.ENOMEM),
    "fork_eagain": (BlockingIOError, errno.EAGAIN),
}
REAL_FAULTS = ("remove", "mkdir_in_place", "replace", "dangling_symlink")


def seam_of(kind: str) -> str:
    if kind in OPEN_ERRNOS or kind in ("eio_read", "log_open_eacces", "log_write_enospc"):
        return "open"
    if kind in MKDIR_ERRNOS:
        return "mkdir"
    if kind in SPAWN_RAISE or kind in ("rc", "killed"):
        return "spawn"
    if kind == "regex_timeout":
        return "regex"
    if kind == "missing":
        return "exists"
    if kind in REAL_FAULTS:
        return "fs"
    raise ValueError(f"unknown fault kind {kind!r}")


class FaultyReader:
    """File object whose read side fails with EIO (the open succeeded)."""

    def __init__(self, f, err=errno.EIO):
        self._f = f
        self._err = err

    def _boom(self, *a, **k):
        raise OSError(self._err, os.strerror(self._err))

    read = readline = readlines = __next__ = _boom

    def __iter__(self):
        return self

    def __enter__(self):
        return self

    def __exit__(self, *a):
        self._f.close()
        return False

    def __getattr__(self, n):
        return getattr(self._f, n)


class FaultyWriter:
    """File object whose write side fails with ENOSPC."""

    def __init__(self, f, err=errno.ENOSPC):
        self._f = f
        self._err = err

    def write(self, *a, **k):
        raise OSError(self._err, os.strerror(self._err))

    writelines = write

    def __enter__(self):
        return self

    def __exit__(self, *a):
        self._f.close()
        return False

    def __getattr__(self, n):
        return getattr(self._f, n)


class Sim:
    def __init__(self, root: str, seed: int):
        self.root = os.path.abspath(root)
        self.rng = random.Random(seed ^ 0x5EED)
        self.events: list = []
        self.seq = 0
        self.vtime = 0.0
        self.inside = 0  # >0 while harness/shim code is doing real I/O on purpose
        self.in_op = False
        self.op_index = -1
        self.faults: list = []
        self.counts: dict = {}
        self.fired: list = []  # per op: list of fired fault indices
        self.escapes: list = []
        self.touched: set = set()
        self.tmpdir = None
        self.timers: list = []   # (due virtual time, seq, SimTimer)
        self.timer_seq = 0
        self.firing = False

    # ---------------------------------------------------------------- paths
    def rel(self, path):
        try:
            p = os.fspath(path)
        except TypeError:
            return None
        if isinstance(p, bytes):
            try:
                p = p.decode()
            except UnicodeDecodeError:
                return None
        p = os.path.abspath(p)
        if p == self.root:
            return "."
        if p.startswith(self.root + os.sep):
            return p[len(self.root) + 1:]
        return None

    def norm(self, s):
        if isinstance(s, str):
            s = s.replace(self.root, "$W")
            if self.tmpdir:
                s = s.replace(self.tmpdir, "$T")
        return s

    # ---------------------------------------------------------------- events
    def event(self, seam: str, **kw):
        self.seq += 1
        # virtual cost of a seam event: drawn from the run's PRNG (never a real clock)
        self.vtime += self.rng.choice((1, 2, 3, 5, 8)) * 1e-4
        if self.rng.random() < 0.1:
            self.vtime += self.rng.uniform(0.05, 2.5)  # now and then a slow disk / a slow peer: simulated latency
        ev = {"n": self.seq, "t": round(self.vtime, 6), "op": self.op_index, "seam": seam}
        ev.update(kw)
        self.events.append(ev)
        if self.timers and not self.inside:
            self.advance(0.0)
        return ev

    def advance(self, dt: float = 0.0):
        """Move the virtual clock and run the timers that became due (in this thread, in due order)."""
        self.vtime += max(0.0, float(dt))
        if self.firing:
            return
        self.firing = True
        try:
            while True:
                due = sorted((t for t in self.timers if t[0] <= self.vtime), key=lambda t: (t[0], t[1]))
                if not due:
                    break
                t = due[0]
                self.timers.remove(t)
                timer = t[2]
                if timer._cancelled:
                    continue
                timer._fired = True
                self.events.append({"n": self.seq + 1, "t": round(self.vtime, 6), "op": self.op_index, "seam": "timer", "due": round(t[0], 6)})
                self.seq += 1
                try:
                    timer.function(*timer.args, **timer.kwargs)
                except BaseException:  # noqa: BLE001 - a timer thread's exception never reaches the caller
                    pass
        finally:
            self.firing = False

    def find_fault(self, seam: str, rel=None):
        """The armed fault (index, dict) that applies to this call of `seam`, if any."""
        for idx, f in enumerate(self.faults):
            if seam_of(f["kind"]) != seam:
                continue
            tgt = f.get("target")
            if tgt is not None and rel is not None:
                if tgt.endswith("/*"):
                    if not (rel + "/").startswith(tgt[:-1]):
                        continue
                elif tgt != rel:
                    continue
            key = (idx,)
            self.counts[key] = self.counts.get(key, 0) + 1
            nth = f.get("nth")
            if nth is not None and self.counts[key] != nth:
                continue
            return idx, f
        return None, None

    def fire(self, idx):
        if idx not in self.fired[-1]:
            self.fired[-1].append(idx)

    def harness(self):
        return _Inside(self)


class _Inside:
    def __init__(self, sim):
        self.sim = sim

    def __enter__(self):
        self.sim.inside += 1

    def __exit__(self, *a):
        self.sim.inside -= 1
        return False


SIM: Sim | None = None


# ===================================================================== seams
def sim_open(file, mode="r", *args, **kwargs):
    sim = SIM
    if sim is None or sim.inside or isinstance(file, int):
        return _REAL_OPEN(file, mode, *args, **kwargs)
    rel = sim.rel(file)
    if rel is None:
        return _REAL_OPEN(file, mode, *args, **kwargs)
    sim.touched.add(rel)
    is_log = rel.startswith("logs/") or rel == "logs"
    idx, f = sim.find_fault("open", rel)
    if f is not None:
        kind = f["kind"]
        if kind in OPEN_ERRNOS or kind == "log_open_eacces":
            en = OPEN_ERRNOS.get(kind, errno.EACCES)
            sim.fire(idx)
            sim.event("open", path=_logname(rel), mode=mode, res=errno.errorcode[en], fault=kind)
            raise OSError(en, os.strerror(en), os.fspath(file))
    sim.inside += 1
    try:
        try:
            fh = _REAL_OPEN(file, mode, *args, **kwargs)
        except OSError as e:
            sim.event("open", path=_logname(rel), mode=mode, res=errno.errorcode.get(e.errno, str(e.errno)))
            raise
    finally:
        sim.inside -= 1
    if f is not None and f["kind"] == "eio_read":
        sim.fire(idx)
        sim.event("open", path=_logname(rel), mode=mode, res="ok", fault="eio_read")
        return FaultyReader(fh)
    if f is not None and f["kind"] == "log_write_enospc":
        sim.fire(idx)
        sim.event("open", path=_logname(rel), mode=mode, res="ok", fault="log_write_enospc")
        return FaultyWriter(fh)
    sim.event("open", path=_logname(rel), mode=mode, res="ok")
    return fh


_LOGNAME = re.compile(r"^(logs/[A-Z]+/)[^/]+\.log$")


def _logname(rel):
    m = _LOGNAME.match(rel)
    return m.group(1) + "<date>.log" if m else rel


def _exists_common(sim, path, real):
    rel = sim.rel(path)
    if rel is None:
        return real()
    sim.touched.add(rel)
    idx, f = sim.find_fault("exists", rel)
    if f is not None:
        sim.fire(idx)
        sim.event("exists", path=rel, res=False, fault="missing")
        return False
    sim.inside += 1
    try:
        res = real()
    finally:
        sim.inside -= 1
    sim.event("exists", path=rel, res=bool(res))
    return res


class SimTimer:
    """threading.Timer on the virtual clock: fires (synchronously) when the simulated time reaches its deadline."""

    def __init__(self, interval, function, args=None, kwargs=None):
        self.interval = float(interval)
        self.function = function
        self.args = args if args is not None else []
        self.kwargs = kwargs if kwargs is not None else {}
        self.daemon = True
        self.name = "SimTimer"
        self._cancelled = False
        self._fired = False
        self._started = False

    def start(self):
        s = SIM
        self._started = True
        s.timer_seq += 1
        s.timers.append((s.vtime + self.interval, s.timer_seq, self))
        s.event("timer_start", interval=self.interval)

    def cancel(self):
        self._cancelled = True

    def is_alive(self):
        return self._started and not self._fired and not self._cancelled

    def join(self, timeout=None):
        return None

    def setDaemon(self, v):  # noqa: N802
        self.daemon = v


_EPOCH = 1767322000.0


def install_seams(sim: Sim):
    """Attach the shims. Only ever called in a forked child."""
    global SIM
    SIM = sim
    import pathlib
    import threading
    import time as _time

    # the clock: every reader of time in the simulated process sees the virtual clock
    # The simulated process was "started" when the package was imported (in the pristine parent): its clock
    # continues from there, so that a value read at import time (a module-level `started = time.monotonic()`)
    # and the simulated present belong to one time line.  0.5 s = interpreter start-up.
    from . import exec as _ex
    mono0, wall0 = _ex.T_IMPORT[0] + 0.5, _ex.T_IMPORT[1] + 0.5
    threading.Timer = SimTimer

    def _now():
        # reading the clock takes time: two reads never see the same instant (a frozen clock would turn every
        # "poll until the deadline has passed" loop of the standard library into a spin)
        SIM.vtime += 1e-6
        return SIM.vtime

    _time.time = lambda: wall0 + _now()
    _time.monotonic = lambda: mono0 + _now()
    _time.perf_counter = lambda: mono0 + _now()
    _time.time_ns = lambda: int((wall0 + _now()) * 1e9)
    _time.monotonic_ns = lambda: int((mono0 + _now()) * 1e9)

    def _sleep(seconds):
        SIM.event("sleep", seconds=float(seconds))
        SIM.advance(float(seconds))

    _time.sleep = _sleep

    builtins.open = sim_open
    io.open = sim_open

    real_path_exists = pathlib.Path.exists
    real_path_is_file = pathlib.Path.is_file

    def path_exists(self, *a, **k):
        s = SIM
        if s is None or s.inside:
            return real_path_exists(self, *a, **k)
        return _exists_common(s, self, lambda: real_path_exists(self, *a, **k))

    def path_is_file(self, *a, **k):
        s = SIM
        if s is None or s.inside:
            return real_path_is_file(self, *a, **k)
        return _exists_common(s, self, lambda: real_path_is_file(self, *a, **k))

    pathlib.Path.exists = path_exists
    pathlib.Path.is_file = path_is_file

    def os_path_exists(p):
        s = SIM
        if s is None or s.inside:
            return _REAL_OS_PATH_EXISTS(p)
        return _exists_common(s, p, lambda: _REAL_OS_PATH_EXISTS(p))

    def os_path_isfile(p):
        s = SIM
        if s is None or s.inside:
            return _REAL_OS_PATH_ISFILE(p)
        return _exists_common(s, p, lambda: _REAL_OS_PATH_ISFILE(p))

    os.path.exists = os_path_exists
    os.path.isfile = os_path_isfile

    def sim_mkdir(path, mode=0o777, *a, **k):
        s = SIM
        if s is None or s.inside:
            return _REAL_MKDIR(path, mode, *a, **k)
        rel = s.rel(path)
        if rel is None:
            return _REAL_MKDIR(path, mode, *a, **k)
        s.touched.add(rel)
        s.touched.add(rel.split("/")[0])
        idx, f = s.find_fault("mkdir", rel)
        if f is not None:
            en = MKDIR_ERRNOS[f["kind"]]
            s.fire(idx)
            s.event("mkdir", path=rel, res=errno.errorcode[en], fault=f["kind"])
            raise OSError(en, os.strerror(en), os.fspath(path))
        s.inside += 1
        try:
            try:
                r = _REAL_MKDIR(path, mode, *a, **k)
            except OSError as e:
                s.event("mkdir", path=rel, res=errno.errorcode.get(e.errno, str(e.errno)))
                raise
        finally:
            s.inside -= 1
        s.event("mkdir", path=rel, res="ok")
        return r

    os.mkdir = sim_mkdir

    subprocess.Popen = SimPopen

    import regex as _regex

    real_search = _regex.search
    real_finditer = _regex.finditer

    def _rx_event(fn, pattern, string, timeout, **kw):
        return SIM.event(
            "regex", fn=fn, timeout=timeout,
            pattern=hashlib.sha256(str(pattern).encode("utf-8", "replace")).hexdigest()[:16],
            plen=len(str(pattern)), slen=len(string), **kw,
        )

    def sim_search(pattern, string, *a, **k):
        s = SIM
        if s is None or s.inside:
            return real_search(pattern, string, *a, **k)
        timeout = k.get("timeout")
        idx, f = s.find_fault("regex")
        if f is not None:
            dur = float(f.get("duration", 61.0))
            if timeout is not None and dur > timeout:
                s.fire(idx)
                s.vtime += float(timeout)
                _rx_event("search", pattern, string, timeout, res="TimeoutError", fault="regex_timeout")
                raise TimeoutError("regex timed out")
            # the code under test gave no (or a longer) deadline: the scan simply takes that long
            s.vtime += dur
        s.inside += 1
        try:
            m = real_search(pattern, string, *a, **k)
        finally:
            s.inside -= 1
        _rx_event("search", pattern, string, timeout, res="match" if m else "nomatch")
        return m

    def sim_finditer(pattern, string, *a, **k):
        s = SIM
        if s is None or s.inside:
            return real_finditer(pattern, string, *a, **k)
        timeout = k.get("timeout")
        idx, f = s.find_fault("regex")
        s.inside += 1
        try:
            it = real_finditer(pattern, string, *a, **k)
        finally:
            s.inside -= 1
        armed = False
        after = 0
        if f is not None:
            dur = float(f.get("duration", 61.0))
            if timeout is not None and dur > timeout:
                armed = True
                after = int(f.get("after") or 0)
            else:
                s.vtime += dur
        ev = _rx_event("finditer", pattern, string, timeout, res="iter")

        def gen():
            n = 0
            while True:
                if armed and n >= after:
                    s.fire(idx)
                    s.vtime += float(timeout)
                    ev["res"] = f"TimeoutError@{n}"
                    ev["fault"] = "regex_timeout"
                    raise TimeoutError("regex timed out")
                s.inside += 1
                try:
                    try:
                        m = next(it)
                    except StopIteration:
                        ev["res"] = f"done@{n}"
                        return
                finally:
                    s.inside -= 1
                n += 1
                yield m

        return gen()

    _regex.search = sim_search
    _regex.finditer = sim_finditer

    # the only wall-clock reader of JASM: the log file name
    try:
        import datetime as _dt

        import jasm.logging_config as lc

        class _FixedDateTime(_dt.datetime):
            @classmethod
            def today(cls):
                return cls(2026, 1, 2, 3, 4, 5)

            @classmethod
            def now(cls, tz=None):
                return cls(2026, 1, 2, 3, 4, 5)

        if hasattr(lc, "datetime"):
            lc.datetime = _FixedDateTime
    except Exception:  # pragma: no cover - a refactor may have moved it; names are normalised anyway
        pass

    sys.addaudithook(_audit)


_WATCHED = {
    "os.system", "os.posix_spawn", "os.exec", "os.spawn", "os.fork", "os.forkpty", "pty.spawn",
    "socket.connect", "socket.bind", "socket.getaddrinfo", "urllib.Request", "http.client.connect",
}
_FS_EVENTS = {"open", "os.remove", "os.rename", "os.rmdir", "os.mkdir", "os.listdir", "os.scandir", "os.truncate", "os.chmod", "shutil.copyfile", "shutil.move", "shutil.rmtree"}


def _audit(event, args):
    s = SIM
    if s is None or s.inside or not s.in_op:
        return
    if event == "subprocess.Popen":
        s.escapes.append({"op": s.op_index, "event": event, "arg": s.norm(str(args[0]))})
        return
    if event in _WATCHED:
        s.escapes.append({"op": s.op_index, "event": event, "arg": s.norm(str(args[:1]))})
        return
    if event in _FS_EVENTS and args:
        p = args[0]
        if isinstance(p, (str, bytes, os.PathLike)):
            rel = s.rel(p)
            if rel is not None:
                s.escapes.append({"op": s.op_index, "event": event, "arg": rel})


class SimPopen(_REAL_POPEN):
    """The only process-creation primitive the code under test sees.

    `subprocess.run`, `check_output`, `call` are the real functions and all end here."""

    def __init__(self, args, *a, **kw):
        s = SIM
        if s is None or s.inside:
            super().__init__(args, *a, **kw)
            return
        if isinstance(args, (str, bytes, os.PathLike)):
            argv = [os.fspath(args)]
        else:
            argv = [os.fspath(x) for x in args]
        argv = [x.decode() if isinstance(x, bytes) else x for x in argv]
        for x in argv[1:]:
            r = s.rel(x) if not x.startswith("-") else None
            if r is not None:
                s.touched.add(r)
        kwrec = {k: (v if isinstance(v, (bool, int, str, type(None))) else type(v).__name__) for k, v in sorted(kw.items())}
        ev = s.event("spawn", argv=[s.norm(x) for x in argv], kw=kwrec)
        idx, f = s.find_fault("spawn")
        new_args = args
        if f is not None:
            kind = f["kind"]
            s.fire(idx)
            ev["fault"] = kind
            if kind in SPAWN_RAISE:
                cls, en = SPAWN_RAISE[kind]
                ev["res"] = errno.errorcode[en]
                raise cls(en, os.strerror(en), argv[0])
            # the peer starts but misbehaves: run the real command ourselves, then serve a
            # stand-in program that prints (part of) its output and exits as the fault says
            s.inside += 1
            try:
                try:
                    real = subprocess.run(argv, stdout=subprocess.PIPE, stderr=subprocess.PIPE, check=False)
                    out = real.stdout
                except OSError:
                    out = b""
                how = f.get("stdout", "none")
                if how == "none":
                    payload = b""
                elif how == "full":
                    payload = out
                else:  # torn
                    cut = int(len(out) * float(f.get("tear", 0.5)))
                    if f.get("line_boundary"):
                        nl = out.rfind(b"\n", 0, cut)
                        cut = nl + 1 if nl >= 0 else 0
                    payload = out[:cut]
                if s.tmpdir is None:
                    import tempfile
                    s.tmpdir = tempfile.mkdtemp(prefix="peer-", dir=os.path.dirname(s.root))
                pf = os.path.join(s.tmpdir, f"payload{s.seq}")
                with _REAL_OPEN(pf, "wb") as fh:
                    fh.write(payload)
            finally:
                s.inside -= 1
            msg = f.get("stderr", "objdump: simulated failure")
            if kind == "killed":
                script = 'cat "$1"; echo "$2" >&2; kill -' + str(f.get("signal", "9")) + ' $$'
                ev["res"] = f"killed stdout={len(payload)}/{len(out)}"
            else:
                code = int(f.get("code", 1))
                script = f'cat "$1"; echo "$2" >&2; exit {code}'
                ev["res"] = f"rc={code} stdout={len(payload)}/{len(out)}"
            new_args = ["/bin/sh", "-c", script, "sh", pf, msg]
            kw = dict(kw)
            kw["shell"] = False
            kw.pop("executable", None)
        s.inside += 1
        try:
            try:
                super().__init__(new_args, *a, **kw)
            except OSError as e:
                ev["res"] = errno.errorcode.get(e.errno, str(e.errno))
                raise
        finally:
            s.inside -= 1
        ev.setdefault("res", "started")


# ============================================================ real-fs faults
def _apply_real_faults(sim: Sim, faults):
    """Faults that are realised for real on the world directory for the duration
    of one operation (a missing file is really missing, whatever API reads it)."""
    undo = []
    for idx, f in enumerate(faults):
        kind = f["kind"]
        if kind not in REAL_FAULTS:
            continue
        path = os.path.join(sim.root, f["target"])
        if sim.rel(path) in (None, "."):
            continue  # never touch anything outside the world directory (e.g. an input such as /dev/null)
        saved = None
        was_dir = os.path.isdir(path)
        if was_dir and kind in ("replace", "remove"):
            # e.g. logs/ left by an earlier invocation in the same process: moved aside, restored afterwards
            os.rename(path, path + ".sim-saved")
        if os.path.isfile(path):
            with _REAL_OPEN(path, "rb") as fh:
                saved = fh.read()
        if kind == "remove":
            if saved is not None:
                os.remove(path)
        elif kind == "mkdir_in_place":
            if saved is not None:
                os.remove(path)
            os.makedirs(path, exist_ok=True)
        elif kind == "dangling_symlink":
            if saved is not None:
                os.remove(path)
            os.symlink("target-that-was-removed", path)
        elif kind == "replace":
            os.makedirs(os.path.dirname(path), exist_ok=True)
            with _REAL_OPEN(path, "wb") as fh:
                fh.write(util.dec_content(f["content"]))
        undo.append((idx, kind, path, saved, was_dir))
    return undo


def _undo_real_faults(sim: Sim, undo):
    for idx, kind, path, saved, was_dir in reversed(undo):
        if kind == "mkdir_in_place" and not was_dir:
            shutil.rmtree(path, ignore_errors=True)
        if kind == "dangling_symlink" and os.path.islink(path):
            os.remove(path)
        if was_dir and kind in ("replace", "remove"):
            if os.path.isfile(path):
                os.remove(path)
            elif os.path.isdir(path):
                shutil.rmtree(path, ignore_errors=True)
            os.rename(path + ".sim-saved", path)
            continue
        if saved is not None:
            with _REAL_OPEN(path, "wb") as fh:
                fh.write(saved)
        elif kind == "replace" and os.path.isfile(path):
            os.remove(path)


# ================================================================= operations
_ADDR_LINE = re.compile(r"(?:^|[\s\-:|\]])Matched address: (.*)$")
_RESULT_LINE = re.compile(r"RESULT: Pattern (not found|found)\s*$")
_NOISE = ("Message: ", "Arguments: ", "  File ", "Traceback ", "--- Logging error ---", "Call stack:")


def parse_cli_stderr(text: str):
    """(verdict, [addresses], n_result_lines) from what one CLI invocation printed.

    Deliberately independent of the log line prefix (time stamp, logger name, level): the property
    speaks about the `RESULT: ...` and `Matched address ...` messages, not about their decoration.
    Lines of logging's own error reports / tracebacks are skipped."""
    verdicts = []
    addrs = []
    for line in text.split("\n"):
        if line.startswith(_NOISE):
            continue
        m = _ADDR_LINE.search(line)
        if m:
            addrs.append(m.group(1))
            continue
        m = _RESULT_LINE.search(line)
        if m:
            verdicts.append("found" if m.group(1) == "found" else "notfound")
    verdict = verdicts[0] if len(verdicts) == 1 else (None if not verdicts else "ambiguous:" + ",".join(verdicts))
    return verdict, addrs, len(verdicts)


_CFG_CACHE: dict = {}
_MACRO_LISTS: dict = {}
_SHARED_CFG = None
_HELD_MOP = None
_HELD_KEY = None
_HELD_FRESH = False


def _exec_match(op):
    from jasm.global_definitions import InputFileType, MatchConfig, MatchingReturnMode, MatchingSearchMode
    from jasm.match import MasterOfPuppets

    ret = {"bool": MatchingReturnMode.bool, "list": MatchingReturnMode.matched_addrs_list,
           "stream": MatchingReturnMode.all_instructions_string}[op.get("ret", "bool")]
    key = None
    if op.get("reuse_config"):
        # the caller repeats an operation with the very same MatchConfig object (and macro list)
        key = util.cjson({k: v for k, v in op.items() if k in ("rule", "input", "type", "ret", "search", "only_addr", "macros")})
        cached = _CFG_CACHE.get(key)
    else:
        cached = None
    macros_arg = list(op["macros"]) if op.get("macros") else None
    if macros_arg is not None and op.get("shared_macro_list"):
        # the caller defined its list of macro libraries once and passes that very list to every operation
        macros_arg = _MACRO_LISTS.setdefault(tuple(macros_arg), macros_arg)
    if op.get("shared_config") and cached is None:
        # the caller keeps ONE MatchConfig object and updates its fields for every operation
        global _SHARED_CFG
        fields = dict(pattern_pathstr=op["rule"], input_file=op["input"],
                      input_file_type=InputFileType.binary if op.get("type") == "binary" else InputFileType.assembly,
                      return_only_address=bool(op.get("only_addr", False)), return_mode=ret,
                      matching_mode=MatchingSearchMode.all_finds if op.get("search") == "all" else MatchingSearchMode.first_find,
                      macros=macros_arg)
        if _SHARED_CFG is None:
            _SHARED_CFG = MatchConfig(**fields)
        else:
            for k_, v_ in fields.items():
                setattr(_SHARED_CFG, k_, v_)
        cached = _SHARED_CFG
    cfg = cached or MatchConfig(
        pattern_pathstr=op["rule"],
        input_file=op["input"],
        input_file_type=InputFileType.binary if op.get("type") == "binary" else InputFileType.assembly,
        return_only_address=bool(op.get("only_addr", False)),
        return_mode=ret,
        matching_mode=MatchingSearchMode.all_finds if op.get("search") == "all" else MatchingSearchMode.first_find,
        macros=macros_arg,
    )
    if key is not None:
        _CFG_CACHE[key] = cfg
    global _HELD_MOP, _HELD_KEY, _HELD_FRESH
    fresh, _HELD_FRESH = _HELD_FRESH, False  # "fresh" = nothing at all happened since the held object last matched
    okey = util.cjson({k: v for k, v in op.items() if k in ("rule", "input", "type", "ret", "search", "only_addr", "macros")})
    try:
        if op.get("compile_only"):
            # a complete *compilation* that is never matched (the object is dropped)
            value = "regex:" + str(MasterOfPuppets(match_config=cfg).regex_rule)
        elif op.get("rematch") and fresh and _HELD_MOP is not None and _HELD_KEY == okey:
            # the caller asks the object it still holds to match once more (nothing happened in between)
            _HELD_FRESH = True
            value = _HELD_MOP.perform_matching()
        elif op.get("hold_object"):
            # the loop idiom `mop = MasterOfPuppets(cfg); result = mop.perform_matching()`: the previous
            # object is released by the re-binding, i.e. AFTER the new one was constructed
            mop = MasterOfPuppets(match_config=cfg)
            _HELD_MOP, _HELD_KEY = mop, okey
            del mop
            _HELD_FRESH = True  # also when the match below fails: the caller may simply try again
            value = _HELD_MOP.perform_matching()
        else:
            value = MasterOfPuppets(match_config=cfg).perform_matching()
    except BaseException as e:  # noqa: BLE001 - every way of not returning is an outcome
        return ["exc", type(e).__name__, SIM.norm(str(e))[:300]]
    # the object itself is kept, as a caller would keep it: it is looked at (again) when the history is over
    return ["ret", value]


def _sanitize_outcome(oc):
    if not oc or oc[0] != "ret":
        return oc
    value = oc[1]
    if isinstance(value, (bool, str)) or value is None:
        return ["ret", value]
    if isinstance(value, (list, tuple)):
        return ["ret", [v if isinstance(v, (str, int, bool)) else repr(v) for v in value]]
    return ["ret", repr(value)]


def _exec_cli(op):
    import logging

    argv = list(op["argv"])
    out, err = io.StringIO(), io.StringIO()
    old = (sys.argv, sys.stdout, sys.stderr)
    sys.argv = ["jasm"] + argv
    sys.stdout, sys.stderr = out, err
    status = 0
    exc = None
    try:
        try:
            import jasm.main as jm
            jm.main()
        except SystemExit as e:
            c = e.code
            if c is None:
                status = 0
            elif isinstance(c, int):
                status = c & 0xFF
            else:
                err.write(str(c) + "\n")
                status = 1
        except BaseException as e:  # noqa: BLE001
            exc = type(e).__name__
            traceback.print_exc(file=err)
            status = 1
        # what the interpreter does at exit
        try:
            logging.shutdown()
        except BaseException:  # noqa: BLE001
            pass
        try:
            out.flush()
        except BaseException:  # noqa: BLE001
            pass
    finally:
        sys.argv, sys.stdout, sys.stderr = old
    text = err.getvalue()
    # the messages are looked for on both streams: which one the log goes to is not part of the property
    verdict, addrs, nres = parse_cli_stderr(text + "\n" + out.getvalue())
    return ["cli", status, verdict, addrs, {"exc": exc, "n_result": nres, "stderr_tail": SIM.norm(text[-600:]),
                                            "stdout": out.getvalue()[:200]}]


def _exec_write(sim, op):
    global _HELD_FRESH
    _HELD_FRESH = False
    path = os.path.join(sim.root, op["path"])
    if sim.rel(path) in (None, "."):
        return ["skipped-outside-world"]
    with sim.harness():
        os.makedirs(os.path.dirname(path), exist_ok=True)
        if op.get("content") is None:
            if os.path.isdir(path):
                shutil.rmtree(path)
            elif os.path.exists(path):
                os.remove(path)
        else:
            if os.path.isdir(path):
                shutil.rmtree(path)
            with _REAL_OPEN(path, "wb") as fh:
                fh.write(util.dec_content(op["content"]))
    return ["ok"]


def _set_env(sim, op):
    """op["env"] = {NAME: value | None}: the environment the process was started in ({W} = world directory)."""
    env = op.get("env")
    if not env:
        return None
    saved = {}
    for k, v in env.items():
        saved[k] = os.environ.get(k)
        if v is None:
            os.environ.pop(k, None)
        else:
            os.environ[k] = str(v).replace("{W}", sim.root)
    return saved


def _restore_env(saved):
    if not saved:
        return
    for k, v in saved.items():
        if v is None:
            os.environ.pop(k, None)
        else:
            os.environ[k] = v


def _feed_stdin(sim, op):
    """op["stdin_pipe"] = world file whose bytes arrive on a PIPE at fd 0 (for inputs such as /dev/stdin)."""
    rel = op.get("stdin_pipe")
    if not rel:
        return None
    with sim.harness():
        try:
            with _REAL_OPEN(os.path.join(sim.root, rel), "rb") as fh:
                data = fh.read()[:60000]  # must fit the pipe buffer: nobody is there to keep writing
        except OSError:
            data = b""
        r, w = os.pipe()
        os.write(w, data)
        os.close(w)
        saved = os.dup(0)
        os.dup2(r, 0)
        os.close(r)
    return saved


def _restore_stdin(saved):
    if saved is None:
        return
    os.dup2(saved, 0)
    os.close(saved)


def child_main(root: str, ops: list, seed: int, opts: dict | None = None) -> dict:
    opts = opts or {}
    # the same stack headroom as a fresh interpreter has when it calls into the library, wherever in the
    # harness this child was forked from (a rule nested close to the recursion limit must not depend on that)
    depth, fr = 0, sys._getframe()
    while fr is not None:
        depth, fr = depth + 1, fr.f_back
    sys.setrecursionlimit(1000 + depth - 3)
    sim = Sim(root, seed)
    os.chdir(sim.root)
    sink = io.StringIO()
    real_stdout, real_stderr = sys.stdout, sys.stderr
    sys.stdout = sink
    sys.stderr = sink
    install_seams(sim)
    if opts.get("nofile_headroom"):
        # a tight descriptor budget: a descriptor leaked per operation becomes EMFILE within one history
        try:
            import resource
            used = len(os.listdir("/proc/self/fd"))
            _soft, hard = resource.getrlimit(resource.RLIMIT_NOFILE)
            resource.setrlimit(resource.RLIMIT_NOFILE, (min(hard, used + int(opts["nofile_headroom"])), hard))
        except Exception:  # noqa: BLE001
            pass
    if opts.get("log_level"):
        # the embedding application configured logging for the package (level only; no handlers needed)
        import logging
        logging.getLogger("jasm").setLevel(opts["log_level"])
        for name in list(logging.root.manager.loggerDict):
            if name.startswith("jasm"):
                logging.getLogger(name).setLevel(opts["log_level"])
    outcomes = []
    sigs = []
    for i, op in enumerate(ops):
        sim.op_index = i
        sim.faults = list(op.get("faults") or [])
        sim.counts = {}
        sim.fired.append([])
        sim.touched = set()
        if opts.get("signatures"):
            sigs.append(_singleton_signature())
        kind = op["op"]
        if op.get("gap"):
            sim.advance(float(op["gap"]))  # simulated time that passes before this operation starts
        sim.event("op_begin", kind=kind, faults=[f.get("label", f["kind"]) for f in sim.faults])
        if kind == "write":
            oc = _exec_write(sim, op)
        else:
            saved_env = _set_env(sim, op)
            saved_stdin = _feed_stdin(sim, op)
            with sim.harness():
                undo = _apply_real_faults(sim, sim.faults)
            sim.in_op = True
            try:
                if op.get("warnings_error"):
                    # the environment runs Python with warnings promoted to errors (python -W error / PYTHONWARNINGS=error)
                    import warnings
                    with warnings.catch_warnings():
                        warnings.simplefilter("error")
                        oc = _exec_match(op) if kind == "match" else _exec_cli(op)
                else:
                    oc = _exec_match(op) if kind == "match" else _exec_cli(op)
            finally:
                sim.in_op = False
                _restore_stdin(saved_stdin)
                _restore_env(saved_env)
                with sim.harness():
                    _undo_real_faults(sim, undo)
            # a real-fs fault holds for the whole operation whatever API the code uses (or does not
            # use) to look at the file: the operation was given a missing / unreadable / faulty file
            for idx, kindf, path, _s, _d in undo:
                sim.fire(idx)
        outcomes.append(oc)
        sim.event("op_end", outcome=_outcome_digest(_sanitize_outcome(oc)))
    if sim.tmpdir:
        shutil.rmtree(sim.tmpdir, ignore_errors=True)
    sys.stdout, sys.stderr = real_stdout, real_stderr
    outcomes = [_sanitize_outcome(oc) for oc in outcomes]  # what the caller's kept results look like NOW
    return {
        "outcomes": outcomes,
        "events": sim.events,
        "fired": sim.fired,
        "escapes": sim.escapes,
        "vtime": sim.vtime,
        "signatures": sigs,
        "sink_tail": sim.norm(sink.getvalue()[-400:]),
    }


def _outcome_digest(oc):
    if oc and oc[0] == "ret" and isinstance(oc[1], str) and len(oc[1]) > 80:
        return ["ret", "str:" + hashlib.sha256(oc[1].encode()).hexdigest()[:16]]
    if oc and oc[0] == "ret" and isinstance(oc[1], list):
        return ["ret", f"list[{len(oc[1])}]:" + util.digest(oc[1])[:16]]
    if oc and oc[0] == "exc":
        return oc[:2]
    if oc and oc[0] == "cli":
        return ["cli", oc[1], oc[2], f"list[{len(oc[3])}]:" + util.digest(oc[3])[:16]]
    return oc


def _singleton_signature():
    """Measurement only (never part of an oracle): what the process-global config holds now."""
    try:
        from jasm.global_definitions import JASMConfig
        inst = JASMConfig._instance
        if inst is None:
            return "pristine"
        gi = getattr(JASMConfig, "global_info", {})
        parts = []
        for k in sorted(gi, key=str):
            v = gi[k]
            if hasattr(v, "min") and hasattr(v, "max"):
                v = f"range({getattr(v.min, 'hex', '?')},{getattr(v.max, 'hex', '?')})"
            parts.append(f"{getattr(k, 'name', k)}={getattr(v, 'name', v)}")
        return ";".join(parts)
    except Exception:  # noqa: BLE001
        return "?"
