"""Dispatcher shared by all checks: seeds -> workers -> merge -> shrink -> replay file -> evidence.

Exit status: 0 = property held on everything explored (KNOWN-FINDING lines allowed),
1 = at least one violation not listed in known_findings.json (a VIOLATION line each),
2 = the harness itself failed (never reported as 0)."""
from __future__ import annotations

import argparse
import concurrent.futures as cf
import importlib
import json
import multiprocessing
import os
import signal
import sys
import time
import traceback

from . import exec as ex
from . import shrink as shr
from . import util

VERIF = os.path.dirname(os.path.dirname(os.path.abspath(__file__)))
CHECKS = {"C14": "checks.c14", "C15": "checks.c15", "C17": "checks.c17", "C20": "checks.c20"}

_RUNNER = None
_MOD = None


def _worker_init(modname):
    global _MOD
    _MOD = importlib.import_module(modname)
    signal.signal(signal.SIGINT, signal.SIG_IGN)

    def _stop(signum, frame):
        # the dispatcher gives up on this worker (budget used up): take the simulated child along
        ex.kill_current_child()
        os._exit(1)

    signal.signal(signal.SIGTERM, _stop)


def _worker(args):
    """Execute a chunk of run indices; never raises (harness problems are data)."""
    global _RUNNER
    indices, base, tier, opts = args
    if _RUNNER is None:
        _RUNNER = ex.Runner(f"w{os.getpid()}", timeout_s=_MOD.CHILD_TIMEOUT.get(tier, 30))
    out = []
    for i in indices:
        seed = util.derive_seed(base, _MOD.PROP, i)
        t0 = time.monotonic()
        try:
            r = _MOD.run_one(i, seed, _RUNNER, tier, opts)
        except ex.ChildFailure as e:
            r = {"harness": [f"run {i} seed {seed}: {e}"]}
        except Exception:  # noqa: BLE001
            r = {"harness": [f"run {i} seed {seed}: HARNESS-ERROR\n{traceback.format_exc()}"]}
        r["index"] = i
        r["seed"] = seed
        r["wall"] = time.monotonic() - t0
        _RUNNER.memo.clear()
        out.append(r)
    return out


def load_known():
    p = os.environ.get("JASM_VERIF_KNOWN_FINDINGS") or os.path.join(VERIF, "known_findings.json")
    if not os.path.isfile(p):
        return []
    with open(p) as fh:
        return json.load(fh).get("findings", [])


def run_check(prop: str, tier: str, runs=None, workers=None, budget_s=None, opts=None, write_evidence=True, quiet=False, stop_on_violation=False, first_run=0):
    mod = importlib.import_module(CHECKS[prop])
    ex.bootstrap()
    base = util.base_seed()
    cfg = dict(mod.TIERS[tier])
    if runs is not None:
        cfg["runs"] = runs
    if budget_s is not None:
        cfg["budget_s"] = budget_s
    n = cfg["runs"]
    workers = workers or int(os.environ.get("VERIF_WORKERS", "0")) or min(16, os.cpu_count() or 4)
    chunk = cfg.get("chunk", 4)
    t0 = time.monotonic()
    if not quiet:
        print(f"[{prop}] VERIF_SEED={base} tier={tier} runs={n} workers={workers} repo={ex.REPO}", flush=True)
    util.scratch_root()
    tasks = [(list(range(s, min(n, s + chunk))), base, tier, opts or {}) for s in range(first_run, n, chunk)]
    results = []
    exhausted = False
    ctx = multiprocessing.get_context("fork")
    pool = cf.ProcessPoolExecutor(max_workers=workers, mp_context=ctx, initializer=_worker_init, initargs=(CHECKS[prop],))
    futs = [pool.submit(_worker, t) for t in tasks]
    procs = list((getattr(pool, "_processes", None) or {}).values())
    try:
        for f in futs:
            left = cfg["budget_s"] - (time.monotonic() - t0)
            try:
                results.extend(f.result(timeout=max(left, 0.01) if not exhausted else 0.01))
                if stop_on_violation and not exhausted and any(r.get("violations") for r in results):
                    # (regression tooling only) the first violation is enough: do not explore the rest of the tier
                    exhausted = True
            except cf.TimeoutError:
                exhausted = True
                f.cancel()
            except cf.CancelledError:
                pass
            except cf.process.BrokenProcessPool:
                results.append({"index": -1, "seed": 0, "harness": ["HARNESS-ERROR worker pool broke (a worker died)"]})
                break
    finally:
        for f in futs:
            f.cancel()
        if exhausted:
            # the soft wall budget is used up: report what was completed, do not wait for stragglers
            procs = list((getattr(pool, "_processes", None) or {}).values()) or procs
            pool.shutdown(wait=False, cancel_futures=True)
            for p in procs:
                try:
                    p.terminate()
                except Exception:  # noqa: BLE001
                    pass
            t_kill = time.monotonic() + 3.0
            for p in procs:
                try:
                    p.join(max(0.0, t_kill - time.monotonic()))
                    if p.is_alive():
                        p.kill()
                except Exception:  # noqa: BLE001
                    pass
        else:
            pool.shutdown(wait=True, cancel_futures=True)
    results.sort(key=lambda r: r["index"])
    merged = merge(mod, results)
    merged["budget_exhausted"] = exhausted
    merged["runs_requested"] = n
    merged["runs_completed"] = len([r for r in results if r["index"] >= 0 and "evals" in r])
    wall = time.monotonic() - t0

    # ------------------------------------------------------------ verdicts
    known = [k for k in load_known() if k.get("property") == prop]
    known_open = [k for k in known if k.get("status") == "known"]
    fresh, listed = [], {}
    for v in merged["violations"]:
        sig = v["violation"]["signature"]
        k = next((k for k in known_open if _sig_match(k["signature"], sig)), None)
        if k is not None:
            listed.setdefault(k["signature"], (k, []))[1].append(v)
        else:
            fresh.append(v)
    lines = []
    for sig, (k, vs) in sorted(listed.items()):
        lines.append(f"KNOWN-FINDING: property={prop} {k['what']} (signature {sig}; seen {len(vs)}x this run)")
    exit_code = 0
    replays = []
    if fresh:
        exit_code = 1
        runner = ex.Runner("shrink", timeout_s=mod.CHILD_TIMEOUT.get(tier, 30))
        by_sig = {}
        for v in fresh:
            by_sig.setdefault(v["violation"]["signature"], []).append(v)
        t_sh = time.monotonic()
        for si, (sig, vs) in enumerate(sorted(by_sig.items(), key=lambda kv: kv[1][0]["seed_index"])):
            v = vs[0]
            case, viol = v["case"], v["violation"]
            small = case
            if si < cfg.get("max_shrink", 4) and time.monotonic() - t_sh < cfg.get("shrink_budget_s", 60):
                try:
                    small, viol = shr.shrink(mod, case, viol, runner, budget_s=cfg.get("shrink_each_s", 20))
                except Exception:  # noqa: BLE001
                    util.eprint("HARNESS-WARNING shrinking failed:\n" + traceback.format_exc())
                    small = case
            path = write_replay(prop, v["seed"], small, viol, sig)
            replays.append(path)
            lines.append(f"VIOLATION property={prop} replay={path}")
            lines.append(f"  signature={sig} occurrences={len(vs)} clause={viol['clause']}")
            lines.append(f"  detail: {viol.get('detail', '')[:400]}")
        runner.close()
    if merged["harness"]:
        for h in merged["harness"][:10]:
            util.eprint(h)
        # a verdict that could not be reached is never a pass
        if exit_code == 0:
            exit_code = 2
    for w in merged.get("warnings", [])[:20]:
        util.eprint("HARNESS-WARNING " + w)
    if merged["runs_completed"] == 0 and exit_code == 0:
        util.eprint("HARNESS-ERROR no run completed")
        exit_code = 2
    if write_evidence:
        write_evidence_file(mod, prop, tier, base, merged, wall, len(fresh), lines)
    if not quiet:
        for ln in lines:
            print(ln)
        rph = merged["evaluations"] / wall * 3600 if wall > 0 else 0
        print(f"[{prop}] runs={merged['runs_completed']}/{n} evaluations={merged['evaluations']} distinct={len(merged['distinct'])} "
              f"violations={len(fresh)} known={sum(len(v[1]) for v in listed.values())} harness_problems={len(merged['harness'])} "
              f"wall={wall:.1f}s ({rph:.0f} evaluations/h){' BUDGET-EXHAUSTED' if exhausted else ''}", flush=True)
    return exit_code, merged, replays


def _sig_match(pattern: str, sig: str) -> bool:
    return sig == pattern


def merge(mod, results):
    m = {"evaluations": 0, "violations": [], "counters": {}, "distinct": set(), "samples": [], "harness": [],
         "digests": [], "warnings": [], "vtime": 0.0, "seeds": []}
    for r in results:
        if r.get("harness"):
            m["harness"].extend(r["harness"])
            if "evals" not in r:
                continue
        m["evaluations"] += r.get("evals", 0)
        for k, v in (r.get("counters") or {}).items():
            _cadd(m["counters"], k, v)
        m["distinct"].update(r.get("distinct") or [])
        if r.get("sample") is not None and len(m["samples"]) < 5:
            m["samples"].append(r["sample"])
        for v in r.get("violations") or []:
            v["seed"] = r["seed"]
            v["seed_index"] = r["index"]
            m["violations"].append(v)
        m["digests"].append((r["index"], r.get("digest")))
        m["vtime"] += r.get("vtime", 0.0)
        m["warnings"].extend(r.get("warnings") or [])
        if len(m["seeds"]) < 8:
            m["seeds"].append(r["seed"])
    return m


def _cadd(dst, k, v):
    if isinstance(v, dict):
        d = dst.setdefault(k, {})
        for kk, vv in v.items():
            _cadd(d, kk, vv)
    else:
        dst[k] = dst.get(k, 0) + v


def write_replay(prop, seed, case, viol, sig):
    d = os.path.join(VERIF, "replays")
    os.makedirs(d, exist_ok=True)
    tag = util.digest([sig, case])[:10]
    path = os.path.join(d, f"{prop}-{seed}-{tag}.json")
    doc = {"property": prop, "seed": seed, "signature": sig, "violation": viol, "case": case}
    with open(path, "w") as fh:
        json.dump(doc, fh, indent=1, sort_keys=True, default=util._default)
    return path


def replay(prop, path):
    mod = importlib.import_module(CHECKS[prop])
    ex.bootstrap()
    with open(path) as fh:
        doc = json.load(fh)
    runner = ex.Runner("replay", timeout_s=60)
    try:
        vs = mod.evaluate(doc["case"], runner)
    finally:
        runner.close()
    want = doc.get("signature")
    same = [v for v in vs if v["signature"] == want]
    print(f"[{prop}] replay {path}: {len(vs)} violation(s), {len(same)} with the recorded signature")
    if vs:
        v = (same or vs)[0]
        print(f"VIOLATION property={prop} replay={path}")
        print(f"  signature={v['signature']} clause={v['clause']}")
        print(f"  detail: {v.get('detail', '')[:600]}")
        return 1
    print(f"[{prop}] replay did not reproduce a violation on this tree")
    return 0


def write_evidence_file(mod, prop, tier, base, merged, wall, nviol, lines):
    os.makedirs(os.path.join(VERIF, "evidence"), exist_ok=True)
    counters = merged["counters"]
    cov = {
        "evaluations": int(merged["evaluations"]),
        "distinct_nontrivial": len(merged["distinct"]),
        "rule": mod.RULE,
        "samples": merged["samples"] or [{"note": "no run completed"}],
        "exhaustive": bool(getattr(mod, "EXHAUSTIVE", False)),
        "runs_requested": merged["runs_requested"],
        "runs_completed": merged["runs_completed"],
        "budget_exhausted": merged["budget_exhausted"],
        "first_seeds": merged["seeds"],
        "runs_per_hour": round(merged["runs_completed"] / wall * 3600) if wall > 0 else 0,
        "evaluations_per_hour": round(merged["evaluations"] / wall * 3600) if wall > 0 else 0,
        "sim_time_s": round(merged["vtime"], 3),
        "faults_fired": counters.get("faults_fired", {}),
        "counters": {k: v for k, v in counters.items() if k != "faults_fired"},
        "seam_escapes": counters.get("seam_escapes", 0),
        "harness_problems": len(merged["harness"]),
        "real_components": mod.REAL,
        "stub_components": mod.STUB,
        "event_log_digest": util.digest(merged["digests"]),
        "report": lines[:40],
    }
    if getattr(mod, "EXHAUSTIVE_NOTE", None):
        cov["exhaustive_scope"] = mod.EXHAUSTIVE_NOTE
    doc = {
        "property_id": prop,
        "tier": tier,
        "seed": int(base),
        "level": mod.LEVEL,
        "coverage": cov,
        "assumptions": mod.ASSUMPTIONS,
        "wall_s": round(wall, 2),
        "violations": int(nviol),
    }
    path = os.path.join(VERIF, "evidence", f"{prop}.json")
    tmp = path + ".tmp"
    with open(tmp, "w") as fh:
        json.dump(doc, fh, indent=1, sort_keys=True, default=util._default)
    os.replace(tmp, path)


def main(argv=None):
    ap = argparse.ArgumentParser(prog="check")
    ap.add_argument("prop")
    ap.add_argument("rest", nargs="*")
    ap.add_argument("--tier", default=os.environ.get("VERIF_TIER", "quick"), choices=["quick", "thorough"])
    ap.add_argument("--replay")
    ap.add_argument("--runs", type=int)
    ap.add_argument("--workers", type=int)
    ap.add_argument("--budget", type=float)
    ap.add_argument("--no-evidence", action="store_true")
    ap.add_argument("--short", action="store_true")
    ap.add_argument("--first-run", type=int, default=0, help="(tooling) explore only the runs of the tier from this index on")
    ap.add_argument("--stop-on-violation", action="store_true", help="(tooling) stop exploring after the first run that shows a violation")
    a = ap.parse_args(argv)

    def _term(signum, frame):
        raise SystemExit(2)

    signal.signal(signal.SIGTERM, _term)
    for stream in (sys.stdout, sys.stderr):
        try:  # file names in reports may contain bytes that are not UTF-8
            stream.reconfigure(errors="backslashreplace")
        except Exception:  # noqa: BLE001
            pass
    code = 2
    try:
        if a.prop == "selftest-digest":
            from checks import selftest
            code = selftest.digest_only(a.rest[0], int(a.rest[1]))
        elif a.prop == "selftest":
            from checks import selftest
            code = selftest.main(short=a.short)
        elif a.prop not in CHECKS:
            util.eprint(f"unknown property {a.prop}; known: {sorted(CHECKS)} or selftest")
            code = 2
        elif a.replay:
            code = replay(a.prop, a.replay)
        else:
            code, _m, _r = run_check(a.prop, a.tier, runs=a.runs, workers=a.workers, budget_s=a.budget, write_evidence=not a.no_evidence and not a.first_run, stop_on_violation=a.stop_on_violation, first_run=a.first_run)
    except SystemExit as e:
        code = e.code if isinstance(e.code, int) else 2
    except BaseException:  # noqa: BLE001
        traceback.print_exc()
        code = 2
    finally:
        util.cleanup_scratch()
    return code


if __name__ == "__main__":
    sys.exit(main())
