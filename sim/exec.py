"""Fork-per-run executor.

The calling process (a worker of the pool, forked from the dispatcher) has
imported JASM from the tree under test but never executes any JASM operation
itself: every simulated run and every reference evaluation happens in a child
forked from it, which therefore starts from exactly the state of a fresh
interpreter after `import jasm`."""
from __future__ import annotations

import faulthandler
import os
import pickle
import select
import shutil
import signal
import sys
import time

from . import util

REPO = os.path.abspath(os.environ.get("JASM_VERIF_REPO", "/repo"))
_BOOTED = False
T_IMPORT = (0.0, 0.0)


def bootstrap():
    """Import JASM from REPO/src (asserting where it came from). No JASM code is run."""
    global _BOOTED
    if _BOOTED:
        return
    sys.dont_write_bytecode = True
    src = os.path.join(REPO, "src")
    if not os.path.isdir(os.path.join(src, "jasm")):
        raise RuntimeError(f"HARNESS-ERROR no jasm package under {src}")
    sys.path.insert(0, src)
    global T_IMPORT
    T_IMPORT = (time.monotonic(), time.time())  # what a clock read at import time of the package would have seen
    import jasm  # noqa: F401
    import jasm.main  # noqa: F401  (pulls in the whole package)
    import jasm.match  # noqa: F401

    where = os.path.abspath(os.path.dirname(jasm.__file__))
    if not where.startswith(src):
        raise RuntimeError(f"HARNESS-ERROR jasm imported from {where}, expected under {src}")
    # things a child would otherwise import lazily inside an operation
    from . import child  # noqa: F401  (so that forked children need not compile it)
    import encodings.idna  # noqa: F401
    import logging  # noqa: F401
    import tempfile  # noqa: F401
    _BOOTED = True


class ChildFailure(Exception):
    """The harness (not the system under test) failed: timeout or crashed child."""


_CURRENT_CHILD = None


def kill_current_child():
    pid = _CURRENT_CHILD
    if pid:
        for kill in (os.kill, os.killpg):
            try:
                kill(pid, signal.SIGKILL)
            except (ProcessLookupError, PermissionError):
                pass


def run_child(root: str, ops: list, seed: int, timeout_s: float = 30.0, opts: dict | None = None) -> dict:
    global _CURRENT_CHILD
    bootstrap()
    r, w = os.pipe()
    pid = os.fork()
    if pid:
        _CURRENT_CHILD = pid
    if pid == 0:
        # ------------------------------------------------------------ child
        code = 0
        try:
            os.close(r)
            try:
                os.setpgid(0, 0)  # own process group: whatever the code under test forks is reaped with this child
            except OSError:
                pass
            signal.signal(signal.SIGALRM, signal.SIG_DFL)
            signal.alarm(int(timeout_s) + 5)
            try:
                faulthandler.enable(file=sys.__stderr__, all_threads=True)
            except Exception:  # noqa: BLE001
                pass
            from . import child
            try:
                res = child.child_main(root, ops, seed, opts)
            except BaseException:  # noqa: BLE001
                import traceback
                res = {"harness_error": traceback.format_exc()}
            data = pickle.dumps(res, protocol=pickle.HIGHEST_PROTOCOL)
            off = 0
            while off < len(data):
                off += os.write(w, data[off:off + 65536])
            os.close(w)
        except BaseException:  # noqa: BLE001
            code = 3
        finally:
            os._exit(code)
    # ---------------------------------------------------------------- parent
    os.close(w)
    chunks = []
    deadline = time.monotonic() + timeout_s
    timed_out = False
    try:
        while True:
            left = deadline - time.monotonic()
            if left <= 0:
                timed_out = True
                break
            rl, _, _ = select.select([r], [], [], min(left, 1.0))
            if not rl:
                continue
            b = os.read(r, 1 << 20)
            if not b:
                break
            chunks.append(b)
    finally:
        os.close(r)
    if timed_out:
        try:
            os.kill(pid, signal.SIGKILL)
        except ProcessLookupError:
            pass
    _, status = os.waitpid(pid, 0)
    _CURRENT_CHILD = None
    try:
        os.killpg(pid, signal.SIGKILL)  # descendants the child left behind (a worker pool of the code under test, ...)
    except (ProcessLookupError, PermissionError):
        pass
    if timed_out:
        raise ChildFailure(f"HARNESS-TIMEOUT child exceeded {timeout_s}s")
    if not chunks:
        raise ChildFailure(f"HARNESS-ERROR child died without a result (status {status})")
    res = pickle.loads(b"".join(chunks))
    if "harness_error" in res:
        raise ChildFailure("HARNESS-ERROR in child:\n" + res["harness_error"])
    return res


def _marker(content):
    if isinstance(content, dict) and "symlink" in content:
        return b"\x00symlink:" + content["symlink"].encode()
    return util.dec_content(content)


class Runner:
    """One world directory + reference memo, owned by one worker."""

    def __init__(self, name: str = "w", timeout_s: float = 30.0):
        self.dir = os.path.join(util.scratch_root(), name)
        self.root = os.path.join(self.dir, "world")
        self.timeout_s = timeout_s
        self.state: dict = {}
        self.memo: dict = {}
        self.ref_evals = 0
        self.ref_hits = 0

    # ------------------------------------------------------------- the world
    def materialise(self, files: dict):
        """Make the world directory contain exactly `files` (rel path -> str|bytes|{"b64"}|None=directory)."""
        if os.path.isdir(self.root):
            shutil.rmtree(self.root)
        os.makedirs(self.root)
        self.state = {}
        for rel in sorted(files):
            self._put(rel, files[rel])

    def _put(self, rel, content):
        path = os.path.join(self.root, rel)
        if not os.path.abspath(path).startswith(self.root + os.sep):
            raise ValueError(f"refusing to touch {path!r}: outside the world directory")
        if content is None:
            if os.path.islink(path):
                os.remove(path)
            elif os.path.isdir(path):
                shutil.rmtree(path)
            elif os.path.lexists(path):
                os.remove(path)
            self.state.pop(rel, None)
            return
        os.makedirs(os.path.dirname(path), exist_ok=True)
        if os.path.islink(path):
            os.remove(path)
        elif os.path.isdir(path):
            shutil.rmtree(path)
        if isinstance(content, dict) and "symlink" in content:
            os.symlink(content["symlink"], path)
            self.state[rel] = _marker(content)
            return
        data = util.dec_content(content)
        with open(path, "wb") as fh:
            fh.write(data)
        self.state[rel] = data

    def reset(self, files: dict):
        """Bring the directory back to `files` cheaply (only what differs) and drop run droppings (logs/)."""
        want = {rel: _marker(c) for rel, c in files.items()}
        # whatever earlier invocations left under logs/ goes first; logs entries of `files` are re-created below
        logs = os.path.join(self.root, "logs")
        if os.path.islink(logs) or os.path.isfile(logs):
            os.remove(logs)
        elif os.path.isdir(logs):
            shutil.rmtree(logs, ignore_errors=True)
        for rel in [r for r in self.state if r == "logs" or r.startswith("logs/")]:
            self.state.pop(rel)
        for rel in list(self.state):
            if rel not in want:
                self._put(rel, None)
        for rel in sorted(want):
            if self.state.get(rel) != want[rel]:
                self._put(rel, files[rel])

    def apply_write(self, op):
        self._put(op["path"], op.get("content"))

    # ------------------------------------------------------------------ runs
    def run(self, ops: list, seed: int = 0, opts: dict | None = None, keep_logs: bool = False) -> dict:
        try:
            res = run_child(self.root, ops, seed, self.timeout_s, opts)
        except ChildFailure:
            # a killed child may have left a half-applied real-fs fault behind
            snapshot = dict(self.state)
            self.materialise(snapshot)
            raise
        if any(op["op"] == "cli" for op in ops) and not keep_logs:
            logs = os.path.join(self.root, "logs")
            if os.path.islink(logs) or os.path.isfile(logs):
                os.remove(logs)
            elif os.path.isdir(logs):
                shutil.rmtree(logs, ignore_errors=True)
            for rel in [r for r in self.state if r == "logs" or r.startswith("logs/")]:
                self.state.pop(rel)
        # keep our idea of the directory in step with what the child's write ops did
        for op in ops:
            if op["op"] == "write":
                if op.get("content") is None:
                    self.state.pop(op["path"], None)
                else:
                    self.state[op["path"]] = util.dec_content(op["content"])
        return res

    def named_files(self, op) -> list:
        if op["op"] == "match":
            names = [op["rule"], op["input"]] + list(op.get("macros") or [])
        elif op["op"] == "cli":
            names = [a for a in op["argv"] if not a.startswith("-")]
            for a in op["argv"]:
                if a.startswith("--") and "=" in a:
                    names.append(a.split("=", 1)[1])
                elif len(a) > 2 and a[:2] in ("-p", "-s", "-b"):
                    names.append(a[2:])
            lib = op.get("_lib") or {}
            names += [lib.get("rule"), lib.get("input")] + list(lib.get("macros") or [])
            names = [n for n in names if n]
        else:
            names = []
        if op.get("stdin_pipe"):
            names.append(op["stdin_pipe"])
        return sorted({os.path.normpath(n) for n in names})

    def reference(self, op, seed: int = 0, opts: dict | None = None):
        """Outcome of `op` performed first in a pristine process on the directory as it is now.

        Memoised by (operation, contents of every file it names, fault plan): a reference
        outcome is a pure function of those (asserted by the determinism self-test)."""
        kop = {k: v for k, v in op.items() if not k.startswith("_")}
        key = util.digest([kop, [(n, self._content_digest(n)) for n in self.named_files(op)]])
        hit = self.memo.get(key)
        if hit is not None:
            self.ref_hits += 1
            return hit
        self.ref_evals += 1
        res = run_child(self.root, [op], seed, self.timeout_s, opts)
        out = (res["outcomes"][0], res["fired"][0], res["events"])
        self.memo[key] = out
        if op["op"] == "cli":
            logs = os.path.join(self.root, "logs")
            if os.path.isdir(logs):
                shutil.rmtree(logs, ignore_errors=True)
        return out

    def _content_digest(self, name):
        if name in self.state:
            return util.digest(self.state[name])
        if os.path.isabs(name):
            return "abs:" + name  # /dev/null, /dev/stdin ...: never read by the harness
        # a name that is not a key of the world (a path through a symlink or with ..): ask the disk
        p = os.path.join(self.root, name)
        try:
            with open(p, "rb") as fh:
                return "disk:" + util.digest(fh.read())
        except OSError as e:
            return "disk-error:" + str(e.errno)

    def close(self):
        shutil.rmtree(self.dir, ignore_errors=True)
