"""Minimisation of a failing case while the *same violation class* persists.

A case is {"files": {rel: content}, "ops": [...], "extra": {...}}.  The check's
own `evaluate(case, runner)` is re-run after every edit, so the oracle always
refers to what is actually in the (edited) world."""
from __future__ import annotations

import copy
import time

import yaml

from . import gen, util


def _same(vs, viol):
    for v in vs:
        if v["signature"] == viol["signature"] and v["clause"] == viol["clause"]:
            return v
    return None


def shrink(mod, case, viol, runner, budget_s=20.0):
    t0 = time.monotonic()
    best = copy.deepcopy(case)
    best_v = viol
    tried = 0

    def attempt(cand):
        nonlocal best, best_v, tried
        if time.monotonic() - t0 > budget_s:
            return False
        tried += 1
        try:
            vs = mod.evaluate(cand, runner)
        except Exception:  # noqa: BLE001
            return False
        v = _same(vs, viol)
        if v is not None:
            best, best_v = cand, v
            return True
        return False

    attempt.expired = lambda: time.monotonic() - t0 > budget_s

    def drop_unnamed_files():
        named = set()
        for op in best["ops"]:
            named.update(runner.named_files(op))
            if op["op"] == "write":
                named.add(op["path"])
            for f in op.get("faults") or []:
                if f.get("target"):
                    named.add(f["target"])
        extra_keep = set((best.get("extra") or {}).get("keep_files") or [])
        drop = [f for f in best["files"] if f not in named and f not in extra_keep]
        if drop:
            c = copy.deepcopy(best)
            for f in drop:
                c["files"].pop(f)
            return attempt(c)
        return False

    # 0. a big world makes every later step slow: files no operation names go first
    drop_unnamed_files()
    changed = True
    rounds = 0
    while changed and time.monotonic() - t0 < budget_s and rounds < 6:
        changed = False
        rounds += 1
        # 1. fewer operations (the last operation is the one that shows the violation)
        t_pos = _target_index(best["ops"])
        t_item = (t_pos, best["ops"][t_pos])

        def _others():
            return [(i, o) for i, o in enumerate(best["ops"]) if i != t_pos]

        def _with(keep, t_item=t_item):
            return {**best, "ops": [o for _i, o in sorted(list(keep) + [t_item], key=lambda io: io[0])]}

        changed |= _ddmin_list(_others, _with, attempt)
        # 2. fewer faults in each fault plan
        for oi in range(len(best["ops"])):
            fl = best["ops"][oi].get("faults") or []
            if len(fl) > 1 or (fl and oi != _target_index(best["ops"])):
                def mk(keep, oi=oi):
                    c = copy.deepcopy(best)
                    c["ops"][oi]["faults"] = keep
                    return c
                changed |= _ddmin_list(lambda oi=oi: list(best["ops"][oi].get("faults") or []), mk, attempt, allow_empty=True)
        # 3. simpler modes on every op
        for oi in range(len(best["ops"])):
            op = best["ops"][oi]
            if op["op"] != "match":
                continue
            for k, simple in (("macros", None), ("only_addr", False), ("search", "first"), ("ret", "bool")):
                if op.get(k) not in (simple, None) and not (k == "macros" and not op.get(k)):
                    c = copy.deepcopy(best)
                    c["ops"][oi][k] = simple
                    if attempt(c):
                        changed = True
        # 4. fewer files: drop files no op names
        changed |= drop_unnamed_files()
        # 5. shorter listings
        for rel in sorted(best["files"]):
            content = best["files"][rel]
            if isinstance(content, str) and rel.endswith(".s"):
                lines = content.split("\n")

                def mk(keep, rel=rel):
                    c = copy.deepcopy(best)
                    c["files"][rel] = "\n".join(keep)
                    return c
                changed |= _ddmin_list(lambda rel=rel: best["files"][rel].split("\n"), mk, attempt, allow_empty=False)
        # 6. smaller rule documents (never when a document fault is in play: the faulted
        #    document must stay "the valid rule plus exactly one edit")
        no_yaml = bool((best.get("extra") or {}).get("no_yaml_shrink"))
        for rel in ([] if no_yaml else sorted(best["files"])):
            content = best["files"][rel]
            if isinstance(content, str) and rel.endswith((".yaml", ".yml")):
                changed |= _shrink_yaml(best, rel, attempt, lambda: best)
        # 6b. rule documents carried inside write ops / replace faults
        for oi, op in ([] if no_yaml else list(enumerate(best["ops"]))):
            if op["op"] == "write" and isinstance(op.get("content"), str) and op["path"].endswith((".yaml", ".yml")):
                changed |= _shrink_yaml_in_op(best, oi, None, attempt, lambda: best)
            for fi, f in enumerate(op.get("faults") or []):
                if f.get("kind") == "replace" and isinstance(f.get("content"), str) and f["target"].endswith((".yaml", ".yml")):
                    changed |= _shrink_yaml_in_op(best, oi, fi, attempt, lambda: best)
    best.setdefault("extra", {})["shrink"] = {"evaluations": tried, "rounds": rounds}
    return best, best_v


def _target_index(ops):
    """The operation that shows the violation: the marked one, else the last one."""
    return next((i for i, o in enumerate(ops) if o.get("_target")), len(ops) - 1)


def _ddmin_list(get, make, attempt, allow_empty=True):
    """Classic ddmin over a list obtained by get(); make(keep) builds the candidate case."""
    changed = False
    items = list(get())
    n = 2
    expired = getattr(attempt, "expired", lambda: False)
    while len(items) >= (1 if allow_empty else 2):
        if not items or expired():
            break
        chunk = max(1, len(items) // n)
        removed_any = False
        i = 0
        while i < len(items) and not expired():
            keep = items[:i] + items[i + chunk:]
            if not keep and not allow_empty:
                i += chunk
                continue
            if attempt(make(keep)):
                items = keep
                removed_any = True
                changed = True
            else:
                i += chunk
        if not removed_any:
            if chunk == 1:
                break
            n = min(len(items), n * 2)
        else:
            n = max(2, n - 1)
    return changed


def _yaml_variants(doc):
    """Smaller variants of a rule / macro document."""
    if not isinstance(doc, dict):
        return
    for k in list(doc):
        if k != "pattern":
            d = copy.deepcopy(doc)
            d.pop(k)
            yield d
    cfg = doc.get("config")
    if isinstance(cfg, dict):
        for k in list(cfg):
            d = copy.deepcopy(doc)
            d["config"].pop(k)
            yield d
    pat = doc.get("pattern")
    if isinstance(pat, list) and len(pat) > 1:
        for i in range(len(pat)):
            d = copy.deepcopy(doc)
            d["pattern"].pop(i)
            yield d
    if isinstance(pat, list):
        for i, it in enumerate(pat):
            if isinstance(it, dict):
                k0 = next(iter(it))
                v = it[k0]
                # operands away
                if isinstance(v, list) and not k0.startswith("$"):
                    d = copy.deepcopy(doc)
                    d["pattern"][i] = k0
                    yield d
                    for j in range(len(v)):
                        if len(v) > 1:
                            d = copy.deepcopy(doc)
                            d["pattern"][i][k0].pop(j)
                            yield d
                # a group replaced by one of its members
                if k0.startswith("$") and isinstance(v, list):
                    for child in v:
                        d = copy.deepcopy(doc)
                        d["pattern"][i] = copy.deepcopy(child)
                        yield d
                    if len(v) > 1:
                        for j in range(len(v)):
                            d = copy.deepcopy(doc)
                            d["pattern"][i][k0].pop(j)
                            yield d
    ms = doc.get("macros")
    if isinstance(ms, list) and len(ms) > 1:
        for i in range(len(ms)):
            d = copy.deepcopy(doc)
            d["macros"].pop(i)
            yield d


def _shrink_yaml(best, rel, attempt, cur):
    changed = False
    progress = True
    while progress:
        progress = False
        try:
            doc = yaml.safe_load(cur()["files"][rel])
        except Exception:  # noqa: BLE001
            return changed
        for var in _yaml_variants(doc):
            c = copy.deepcopy(cur())
            c["files"][rel] = gen.dump_yaml(var)
            if attempt(c):
                progress = changed = True
                break
    return changed


def _shrink_yaml_in_op(best, oi, fi, attempt, cur):
    changed = False
    progress = True
    while progress:
        progress = False
        op = cur()["ops"][oi]
        text = op["content"] if fi is None else op["faults"][fi]["content"]
        try:
            doc = yaml.safe_load(text)
        except Exception:  # noqa: BLE001
            return changed
        for var in _yaml_variants(doc):
            c = copy.deepcopy(cur())
            if fi is None:
                c["ops"][oi]["content"] = gen.dump_yaml(var)
            else:
                c["ops"][oi]["faults"][fi]["content"] = gen.dump_yaml(var)
            if attempt(c):
                progress = changed = True
                break
    return changed
