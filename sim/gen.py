"""Seeded generators for the simulated world: listings, object files, rules, macro files.

Everything takes an explicit `random.Random`; nothing else is random.  The
harness-side listing decoder below is used only to *construct* patterns that
are likely to match (a control run through JASM decides whether they do); it
is never used as an oracle."""
from __future__ import annotations

import os
import re
import subprocess

import yaml

from . import util

REG64 = ["rax", "rbx", "rcx", "rdx", "rsi", "rdi", "rbp", "rsp", "r8", "r9", "r10", "r12", "r13", "r15"]
REG32 = ["eax", "ebx", "ecx", "edx", "esi", "edi", "ebp", "esp", "r8d", "r9d", "r12d"]
REG16 = ["ax", "bx", "cx", "dx", "si", "di"]
REG8 = ["al", "bl", "cl", "dl", "ah", "bh", "sil", "dil"]
IMMS = ["0x0", "0x1", "0x8", "0x10", "0x28", "0x3f", "0xff", "0x16", "0xa1b2", "0xffffffff"]
OFFS = ["0x0", "0x8", "0x10", "0x18", "0x28", "0x40", "0x1de61", "-0x8", "-0x14"]
SCALES = ["1", "2", "4", "8"]
JCC = ["je", "jne", "jg", "jge", "jl", "jle", "jz", "jnz", "ja", "jb", "js"]


class NoAliasDumper(yaml.SafeDumper):
    def ignore_aliases(self, data):
        return True


def dump_yaml(doc) -> str:
    return yaml.dump(doc, Dumper=NoAliasDumper, sort_keys=False, default_flow_style=False, width=1000)


# ------------------------------------------------------------------ instructions
def _mem(rng, wide=True):
    form = rng.randrange(5)
    a = "%" + rng.choice(REG64)
    b = "%" + rng.choice(REG64[:6] + REG64[8:])
    if form == 0:
        return f"({a})"
    if form == 1:
        return f"{rng.choice(OFFS)}({a})"
    if form == 2:
        return f"({a},{b},{rng.choice(SCALES)})"
    if form == 3:
        return f"{rng.choice(OFFS)}({a},{b},{rng.choice(SCALES)})"
    return f"{rng.choice(OFFS)}(%rip)"


def gen_instruction(rng, addr_pool=None, valid_for_as=False, labels=None):
    """One instruction as (mnemonic, [operand text, ...]) in AT&T syntax.

    With valid_for_as the result is something GNU as accepts; otherwise it only
    has to look like objdump output."""
    k = rng.randrange(22)
    r64 = lambda: "%" + rng.choice(REG64)  # noqa: E731
    r32 = lambda: "%" + rng.choice(REG32)  # noqa: E731
    imm = lambda: "$" + rng.choice(IMMS[:8])  # noqa: E731
    if k == 0:
        return ("push", [r64()])
    if k == 1:
        return ("pop", [r64()])
    if k == 2:
        return ("mov", [r64(), r64()])
    if k == 3:
        return ("mov", [imm(), r64()])
    if k == 4:
        return ("mov", [_mem(rng), r64()])
    if k == 5:
        return ("mov", [r64(), _mem(rng)])
    if k == 6:
        return ("lea", [_mem(rng), r64()])
    if k == 7:
        return (rng.choice(["add", "sub", "and", "or", "xor", "cmp", "test"]), [r64(), r64()])
    if k == 8:
        return (rng.choice(["add", "sub", "and", "cmp"]), [imm(), r64()])
    if k == 9:
        return ("xor", [r32(), r32()]) if not valid_for_as else ("xor", ["%eax", "%eax"])
    if k == 10:
        return ("movl", [imm(), _mem(rng)])
    if k == 11:
        return (rng.choice(["ret", "leave", "nop", "endbr64", "cltq", "hlt", "cqto"]), [])
    if k in (12, 13):
        tgt = _target(rng, addr_pool, labels, valid_for_as)
        return ("call", [tgt])
    if k == 14:
        tgt = _target(rng, addr_pool, labels, valid_for_as)
        return ("jmp", [tgt])
    if k == 15:
        tgt = _target(rng, addr_pool, labels, valid_for_as)
        return (rng.choice(JCC), [tgt])
    if k == 16:
        return ("call", ["*" + r64()])
    if k == 17:
        return ("call", ["*" + rng.choice(OFFS[:7]) + "(%rip)"])
    if k == 18:
        return ("nopw", ["0x0(%rax,%rax,1)"])
    if k == 19:
        return (rng.choice(["shl", "shr", "sar"]), ["$" + rng.choice(["0x1", "0x3", "0x4"]), r64()])
    if k == 20:
        return ("movzbl", [_mem(rng), r32()])
    if rng.random() < 0.25:
        lab = (labels[0] if labels else "L1")
        forms = [("mov", ["%fs:0x28", "%rax"]), ("lock incl", None), ("rep stos", None), ("vaddps", ["%zmm1", "%zmm2", "%zmm3{%k1}{z}"]),
                 ("add", ["$-0x10", "%rsp"]), ("cmpxchg", ["%rcx", "(%rdx)"]), ("movsbl", ["%al", "%eax"]), ("xchg", ["%ax", "%ax"])]
        mn, ops = rng.choice(forms)
        if mn == "lock incl":
            return ("lock incl", ["(%rax)"]) if valid_for_as else ("lock", ["incl", "(%rax)"])
        if mn == "rep stos":
            return ("rep stos", ["%al", "%es:(%rdi)"]) if valid_for_as else ("rep", ["stos", "%al,%es:(%rdi)"])
        if valid_for_as and rng.random() < 0.3:
            return (rng.choice(["lea", "mov"]), [f"{lab}(%rip)", "%rax"])
        return (mn, ops)
    if not valid_for_as and rng.random() < 0.15:
        # a direct-looking branch whose operand is not a hex address (symbolic / intel-style text)
        return (rng.choice(["call", "jmp", "je"]), [rng.choice(["QWORD", "rax", "some_label", "0xzz"])])
    return (rng.choice(["inc", "dec", "neg", "not"]), [r64()])


def _target(rng, addr_pool, labels, valid_for_as):
    if valid_for_as:
        return rng.choice(labels) if labels else "0x10"
    if addr_pool:
        return "%x" % rng.choice(addr_pool)
    return "%x" % rng.randrange(0x1000, 0x9000)


_LABELS = ["main", "_start", "helper", "frob", "_obstack_begin@@Base-0x94a0", "do_it", "x.y", ".L3"]


def render_listing(rng, instrs, base=0x4000, section=".text", header=True, annotate=True, width8=False, bare=False):
    """objdump -d look-alike for a list of (mnemonic, operands).  bare: instruction lines only (a snippet someone pasted)."""
    lines = []
    if header and not bare:
        lines += ["", "sample.bin:     file format elf64-x86-64", "", ""]
    if not bare:
        lines += [f"Disassembly of section {section}:", "", f"{base:016x} <{rng.choice(_LABELS)}>:"]
    addr = base
    for i, (mn, ops) in enumerate(instrs):
        nbytes = rng.choice((1, 2, 3, 3, 4, 5, 7, 9, 10)) if mn != "nopw" else 9
        bs = [f"{rng.randrange(256):02x}" for _ in range(nbytes)]
        first = bs[:7]
        optext = ",".join(ops)
        if annotate and ops and re.fullmatch(r"[0-9a-f]+", ops[0]) and mn in (["call", "jmp"] + JCC):
            optext += f" <{rng.choice(_LABELS)}+0x{rng.randrange(0, 0x200):x}>"
        elif annotate and "(%rip)" in optext and rng.random() < 0.7:
            optext += f"        # {rng.randrange(0x10000, 0x30000):x} <{rng.choice(_LABELS)}+0x{rng.randrange(0x1000):x}>"
        hexpart = " ".join(first) + " "
        pad = " " * max(1, 22 - len(hexpart))
        if ops:
            line = f"{addr:>8x}:\t{hexpart}{pad[:-1]}\t{mn:<6} {optext}"
        else:
            line = f"{addr:>8x}:\t{hexpart}{pad[:-1]}\t{mn}"
        lines.append(line)
        if nbytes > 7:
            lines.append(f"{addr + 7:>8x}:\t{' '.join(bs[7:])} ")
        addr += nbytes
        if rng.random() < 0.06 and not bare:
            lines.append("")
            lines.append(f"{addr:016x} <{rng.choice(_LABELS)}>:")
        if rng.random() < 0.02:
            lines.append("\t...")
    lines.append("")
    return "\n".join(lines), addr


def gen_listing(rng, n=None, base=None, branch_targets=None):
    n = n if n is not None else rng.randrange(6, 36)
    base = base if base is not None else rng.choice((0x1000, 0x4000, 0x401000, 0x11c0))
    pool = branch_targets or [base + rng.randrange(0, 0x400) for _ in range(4)] + [0x10, 0xfff0, 0x2000, 0x7000]
    instrs = [gen_instruction(rng, addr_pool=pool) for _ in range(n)]
    # runs of identical mnemonics make `times` bounds bite
    if n > 8 and rng.random() < 0.6:
        at = rng.randrange(0, n - 4)
        mn = rng.choice(["call", "push", "nop"])
        for j in range(rng.randrange(2, 5)):
            instrs[at + j] = (mn, {"call": ["*0x1dc89(%rip)"], "push": ["%" + rng.choice(REG64)], "nop": []}[mn])
    r = rng.random()
    sec = ".text" if r < 0.6 else rng.choice([".init", ".fini", ".plt", ".mycode"])
    text, end = render_listing(rng, instrs, base=base, section=sec, bare=(rng.random() < 0.2))
    if rng.random() < 0.3:
        # a full `objdump -d` dump usually ends in another section
        tail, _e = render_listing(rng, [gen_instruction(rng, addr_pool=pool) for _ in range(rng.randrange(1, 4))], base=end + 0x20, section=rng.choice([".fini", ".plt.got"]), header=False)
        text += tail
    return text, instrs


# --------------------------------------------------------------- object files
_AS_CACHE: dict = {}


def gen_asm_source(rng, sections=None, random_bytes_p=0.35):
    """AT&T source for GNU as: several sections, code from the vocabulary or raw bytes."""
    pool = [".text", ".init", ".plt", ".plt.got", ".mycode", ".fini", ".data", ".rodata", "mycode", "__ex_table", ".text.cold", "my.sec-1", "text",
            "a b", "my$sec", "sec;x", "-dash", ".te*xt", "se:c x", "-d", "intel"]
    if sections is None:
        k = rng.randrange(1, 5)
        sections = [".text"] if rng.random() < 0.5 else []
        while len(sections) < k:
            s = rng.choice(pool)
            if s not in sections:
                sections.append(s)
        rng.shuffle(sections)
    out = []
    meta = []
    lab = 0
    for sec in sections:
        is_data = sec in (".data", ".rodata")
        if sec == ".text":
            out.append("\t.text")
        elif sec == ".data":
            out.append("\t.data")
        elif sec == ".rodata":
            out.append('\t.section .rodata,"a",@progbits')
        else:
            out.append(f'\t.section "{sec}","ax",@progbits')
        labels = []
        body = []
        n = rng.randrange(2, 14)
        for _ in range(rng.randrange(1, 3)):
            lab += 1
            labels.append(rng.choice(["L{n}", "fn{n}.cold", "_ZN3foo3bar{n}Ev", "a$b{n}", ".Lanchor{n}", "x.y.{n}", "caf\u00e9{n}", "\u0444\u0443\u043d\u043a{n}", '"a>:b{n}"', '"sym with space{n}"']).format(n=lab)
                          if rng.random() < 0.4 else f"L{lab}")
        raw = is_data or rng.random() < random_bytes_p
        if raw:
            body.append(f"{labels[0]}:")
            nb = rng.randrange(4, 40)
            body.append("\t.byte " + ",".join(f"0x{rng.randrange(256):02x}" for _ in range(nb)))
            for lb in labels[1:]:
                body.append(f"{lb}:")
                body.append("\t.byte " + ",".join(f"0x{rng.randrange(256):02x}" for _ in range(rng.randrange(1, 9))))
        else:
            pos = sorted(rng.sample(range(n + 1), len(labels)))
            for i in range(n + 1):
                for j, p in enumerate(pos):
                    if p == i:
                        body.append(f"{labels[j]}:")
                if i < n:
                    mn, ops = gen_instruction(rng, valid_for_as=True, labels=labels)
                    body.append("\t" + mn + ("\t" + ",".join(ops) if ops else ""))
                    if rng.random() < 0.04:
                        body.append(f"\t.zero {rng.choice([8, 16, 40, 64])}")  # objdump folds such a run into a '...' line
        out += body
        meta.append({"name": sec, "raw": raw, "data": is_data})
    if rng.random() < 0.05:
        # a property note of a type objdump does not know: accepted (exit 0), with a warning on stderr
        out += ['\t.section .note.gnu.property,"a",@note', "\t.align 8", "\t.long 4", "\t.long 16", "\t.long 5", '\t.asciz "GNU"',
                f"\t.long 0x{rng.randrange(0x10000, 0x7fffffff):x}", "\t.long 4", "\t.long 0", "\t.long 0"]
    return "\n".join(out) + "\n", meta


def assemble(src: str, bits=64, encoding="utf-8") -> bytes | None:
    """GNU as on `src`; returns the ELF object bytes, or None if as rejects it."""
    key = util.digest([src, bits, encoding])
    if key in _AS_CACHE:
        return _AS_CACHE[key]
    d = os.path.join(util.scratch_root(), f"as-{os.getpid()}")
    os.makedirs(d, exist_ok=True)
    sp, op = os.path.join(d, "in.s"), os.path.join(d, "out.o")
    with open(sp, "wb") as fh:
        fh.write(src.encode(encoding, "replace"))
    try:
        os.remove(op)
    except FileNotFoundError:
        pass
    p = subprocess.run(["as", f"--{bits}", "-o", op, sp], stdout=subprocess.PIPE, stderr=subprocess.PIPE)
    data = None
    if p.returncode == 0 and os.path.isfile(op):
        with open(op, "rb") as fh:
            data = fh.read()
    if len(_AS_CACHE) > 4096:
        _AS_CACHE.clear()
    _AS_CACHE[key] = data
    return data


def harness_objdump(path: str, sections=None, style="att", cwd=None):
    """The harness's own disassembly: objdump -d -M att [-j s]... file  -> (returncode, stdout, stderr)."""
    argv = ["objdump", "-d", "-M", style]
    for s in sections or []:
        argv += ["-j", s]
    argv.append(path)
    p = subprocess.run(argv, stdout=subprocess.PIPE, stderr=subprocess.PIPE, cwd=cwd)
    global LAST_OBJDUMP_STDOUT
    LAST_OBJDUMP_STDOUT = p.stdout  # the bytes exactly as objdump printed them
    return p.returncode, p.stdout.decode("utf-8", "replace"), p.stderr.decode("utf-8", "replace"), argv


LAST_OBJDUMP_STDOUT = b""


# ----------------------------------------------------- harness-side decoding
_INS_LINE = re.compile(r"^\s*([0-9a-f]+):\t([0-9a-f ]+?)\s*\t(\S+)(?:\s+(\S+))?")


def decode_listing(text: str):
    """[(addr, mnemonic, [operand text])] - construction aid only, not an oracle."""
    out = []
    for line in text.split("\n"):
        m = _INS_LINE.match(line)
        if not m:
            continue
        mn = m.group(3)
        ops = m.group(4)
        if mn.startswith("(") or mn in ("rex", "lock", "rep", "repz", "repnz", "data16", "addr32", "cs", "ds", "es", "fs", "gs", "ss", "notrack", "bnd"):
            out.append((m.group(1), None, []))  # something we will not build a pattern from
            continue
        opl = _split_ops(ops) if ops and not ops.startswith("#") and not ops.startswith("<") else []
        out.append((m.group(1), mn, opl))
    return out


def _split_ops(s: str):
    res, depth, cur = [], 0, ""
    for ch in s:
        if ch == "(":
            depth += 1
        elif ch == ")":
            depth -= 1
        if ch == "," and depth == 0:
            res.append(cur)
            cur = ""
        else:
            cur += ch
    res.append(cur)
    return res


_MEM = re.compile(r"^(-?(?:0x)?[0-9a-f]*)\((%[a-z0-9]+)?(?:,(%[a-z0-9]+),([1248]))?\)$")
_SAFE = re.compile(r"^[%A-Za-z0-9_]+$")


def operand_pattern(rng, optext: str, substr_ok=True):
    """A pattern operand that should match `optext` after JASM's normalisation, or None."""
    if optext.startswith("%"):
        name = optext[1:]
        c = rng.randrange(4)
        if not substr_ok or c == 0:
            return optext
        if c == 1:
            return name
        if c == 2 and len(name) > 2:
            return name[1:]
        return optext
    if optext.startswith("$"):
        v = optext[1:]
        return v if _SAFE.match(v) else None
    m = _MEM.match(optext)
    if m and m.group(2):
        off, a, b, c = m.group(1), m.group(2), m.group(3), m.group(4)
        if off.startswith("-"):
            return None
        d = {"main_reg": a}
        if off:
            d["constant_offset"] = off
        if b:
            d["register_multiplier"] = b
            d["constant_multiplier"] = int(c)
        return {"$deref": d}
    if re.fullmatch(r"[0-9a-f]+", optext):
        return optext
    return None


def mnemonic_name(rng, mn: str, substr_ok=True):
    if substr_ok and len(mn) > 2 and rng.random() < 0.5:
        i = rng.randrange(0, 2)
        j = rng.randrange(len(mn) - 1, len(mn) + 1)
        if j - i >= 2:
            return mn[i:j]
    return mn


def instr_item(rng, mn, ops, substr_ok=True, with_ops_p=0.6):
    """Pattern item for one decoded instruction (plain or with operand patterns)."""
    name = mnemonic_name(rng, mn, substr_ok)
    if not _SAFE.match(name):
        return None
    if ops and rng.random() < with_ops_p:
        pats = []
        for o in ops:
            p = operand_pattern(rng, o, substr_ok)
            if p is None:
                break
            pats.append(p)
            if rng.random() < 0.25:
                break
        if pats:
            return {name: pats}
    return name


_OBJ_CACHE: dict = {}


def objdump_of(elf: bytes, sections=None, style="att"):
    """Harness-side disassembly of object bytes: (rc, text).  Cached per content/sections."""
    key = (util.digest(elf), tuple(sections or ()), style)
    if key in _OBJ_CACHE:
        return _OBJ_CACHE[key]
    d = os.path.join(util.scratch_root(), f"as-{os.getpid()}")
    os.makedirs(d, exist_ok=True)
    p = os.path.join(d, "probe.o")
    with open(p, "wb") as fh:
        fh.write(elf)
    rc, out, _err, _argv = harness_objdump("probe.o", sections, style, cwd=d)
    if len(_OBJ_CACHE) > 4096:
        _OBJ_CACHE.clear()
    _OBJ_CACHE[key] = (rc, out)
    return rc, out


RULE_NAMES = ["rule.yaml", "rule.yaml", "rules/my rule.yaml", "r.yml", "r\u00e8gle.yaml", "deep/er/dir/rule.yaml", "rule",
              "h#sh & amp.yaml", "100%.yaml", "q'uote.yaml", "br[ack]et{s}.yaml", "ru=le,1.yaml", "~/rule.yaml", "$HOME/rule.yaml", "@rule.yaml", "@args/rule.yaml"]
ASM_NAMES = ["in.s", "in.s", "dir with space/in put.s", "sub/listing.s", "dump.txt", "in", "50%_packed.s", "star*.s", "we ird$name;x.s",
             "listing.o", "UPPER.ASM", "~/in.s", "$HOME/in.s", "${PATH}.s", "@in.s"]
BIN_NAMES = ["in.bin", "in.o", "bin dir/a b.o", "prog", "sub/lib.so.1", "caf\u00e9.o", "100%.o", "obj.s", "obj.S", "code.asm", "a'b\"c.o", "x[1]?.o",
             "~/prog", "$HOME/a.o"]
MACRO_DIRS = ["macros", "macros", "my macros", "m/acro", "100% macros", "~", "$HOME/macros", "@macros"]


def pick_names(rng):
    """File names a user could plausibly use: sub-directories, spaces, non-ASCII, no extension."""
    return {"rule": rng.choice(RULE_NAMES), "asm": rng.choice(ASM_NAMES), "bin": rng.choice(BIN_NAMES), "macro_dir": rng.choice(MACRO_DIRS)}


_RELOC_CACHE: dict = {}


def relocate(elf: bytes, addr: int):
    """The same object with every section moved by `addr` (objcopy --change-addresses): code at high load addresses."""
    key = (util.digest(elf), addr)
    if key in _RELOC_CACHE:
        return _RELOC_CACHE[key]
    d = os.path.join(util.scratch_root(), f"as-{os.getpid()}")
    os.makedirs(d, exist_ok=True)
    a, b = os.path.join(d, "reloc_in.o"), os.path.join(d, "reloc_out.o")
    with open(a, "wb") as fh:
        fh.write(elf)
    p = subprocess.run(["objcopy", f"--change-addresses={addr:#x}", a, b], stdout=subprocess.PIPE, stderr=subprocess.PIPE)
    out = None
    if p.returncode == 0 and os.path.isfile(b):
        with open(b, "rb") as fh:
            out = fh.read()
    if len(_RELOC_CACHE) > 1024:
        _RELOC_CACHE.clear()
    _RELOC_CACHE[key] = out
    return out


def gen_listing_repeated(rng):
    """A listing in the style of a relocatable object with one function per section: every section
    restarts at address 0 with byte-identical first lines, so matches (and their addresses) repeat."""
    block = [("push", ["%rbp"]), ("mov", ["%rsp", "%rbp"])] + [gen_instruction(rng, addr_pool=[0x10, 0x20]) for _ in range(rng.randrange(1, 4))]
    sub = random_copy(rng)
    head, _end = render_listing(sub, block, base=0, section=".text.f0", header=False)
    head_lines = head.split("\n")
    out = ["", "multi.o:     file format elf64-x86-64", "", ""]
    k = rng.randrange(2, 5)
    for i in range(k):
        lines = list(head_lines)
        lines[0] = f"Disassembly of section .text.f{i}:"
        out += lines
        if rng.random() < 0.5:
            tail, _e = render_listing(rng, [gen_instruction(rng, addr_pool=[0x10]) for _ in range(rng.randrange(1, 4))], base=0x40, section="x", header=False)
            out += tail.split("\n")[3:]
    return "\n".join(out) + "\n", block


def random_copy(rng):
    import random
    return random.Random(rng.getrandbits(64))


def make_archive(members: list) -> bytes | None:
    """A static archive (ar rc) of the given object files: objdump disassembles every member."""
    d = os.path.join(util.scratch_root(), f"as-{os.getpid()}", "ar")
    import shutil
    shutil.rmtree(d, ignore_errors=True)
    os.makedirs(d)
    names = []
    for i, m in enumerate(members):
        n = f"m{i}.o"
        with open(os.path.join(d, n), "wb") as fh:
            fh.write(m)
        names.append(n)
    p = subprocess.run(["ar", "rcD", "lib.a"] + names, cwd=d, stdout=subprocess.PIPE, stderr=subprocess.PIPE)
    if p.returncode != 0:
        return None
    with open(os.path.join(d, "lib.a"), "rb") as fh:
        return fh.read()


def gen_asm_source_32(rng):
    """A small i386 source (for `as --32`): objdump accepts it like any other object."""
    regs = ["eax", "ebx", "ecx", "edx", "esi", "edi", "ebp"]
    out = ["\t.text", "f0:"]
    for _ in range(rng.randrange(3, 12)):
        k = rng.randrange(7)
        r, q = "%" + rng.choice(regs), "%" + rng.choice(regs)
        out.append({0: f"\tpush {r}", 1: f"\tmov {r},{q}", 2: f"\tmov $0x{rng.randrange(1, 255):x},{r}", 3: "\tcall f0", 4: f"\tadd 0x8({r}),{q}",
                    5: "\tret", 6: f"\tlea 0x10({r},{q},4),%eax"}[k])
    return "\n".join(out) + "\n", [{"name": ".text", "raw": False, "data": False}]


def gen_big_source(rng, n):
    """One .text section with n instructions (for `as`): objects whose listing has tens of thousands of lines."""
    out = ["\t.text", "L1:"]
    for i in range(n):
        mn, ops = gen_instruction(rng, valid_for_as=True, labels=["L1"])
        out.append("\t" + mn + ("\t" + ",".join(ops) if ops else ""))
    return "\n".join(out) + "\n", [{"name": ".text", "raw": False, "data": False}]


def to_pe(elf: bytes):
    """The same code as a PE image (objcopy -O pei-x86-64): GNU objdump accepts it like any other object."""
    d = os.path.join(util.scratch_root(), f"as-{os.getpid()}")
    os.makedirs(d, exist_ok=True)
    a, b = os.path.join(d, "pe_in.o"), os.path.join(d, "pe_out.exe")
    with open(a, "wb") as fh:
        fh.write(elf)
    p = subprocess.run(["objcopy", "-O", "pei-x86-64", a, b], stdout=subprocess.PIPE, stderr=subprocess.PIPE)
    if p.returncode != 0 or not os.path.isfile(b):
        return None
    with open(b, "rb") as fh:
        return fh.read()


def make_thin_archive(members: list, subdir="thin_m"):
    """(archive bytes, {relative member path: bytes}): a thin archive records its members by relative path."""
    d = os.path.join(util.scratch_root(), f"as-{os.getpid()}", "thin")
    import shutil
    shutil.rmtree(d, ignore_errors=True)
    os.makedirs(os.path.join(d, subdir))
    rels = {}
    for i, m in enumerate(members):
        rel = f"{subdir}/m{i}.o"
        with open(os.path.join(d, rel), "wb") as fh:
            fh.write(m)
        rels[rel] = m
    p = subprocess.run(["ar", "rcTD", "libthin.a"] + sorted(rels), cwd=d, stdout=subprocess.PIPE, stderr=subprocess.PIPE)
    if p.returncode != 0:
        return None, None
    with open(os.path.join(d, "libthin.a"), "rb") as fh:
        return fh.read(), rels


def gen_dense_source(rng, n):
    """n one-byte instructions: a listing that is large compared with the object (about 36 characters per byte of code)."""
    one = ["push %rax", "push %rbx", "pop %rcx", "pop %rdx", "ret", "nop", "leave", "push %rsi", "pop %rdi"]
    out = ["\t.text", "L1:"] + ["\t" + rng.choice(one) for _ in range(n)] + ["\txor %eax,%eax", "\tmov $0x3c,%edi", "\tcltq", "\tret"]
    return "\n".join(out) + "\n", [{"name": ".text", "raw": False, "data": False}]


def scatter_sections(elf: bytes, names: list, rng):
    """Give every named section its own load address, NOT in file order (objcopy --change-section-address)."""
    d = os.path.join(util.scratch_root(), f"as-{os.getpid()}")
    os.makedirs(d, exist_ok=True)
    a, b = os.path.join(d, "sc_in.o"), os.path.join(d, "sc_out.o")
    with open(a, "wb") as fh:
        fh.write(elf)
    addrs = [0x1000 * (i + 1) for i in range(len(names))]
    rng.shuffle(addrs)
    argv = ["objcopy"]
    for n, ad in zip(names, addrs):
        argv.append(f"--change-section-address={n}={ad:#x}")
    p = subprocess.run(argv + [a, b], stdout=subprocess.PIPE, stderr=subprocess.PIPE)
    if p.returncode != 0 or not os.path.isfile(b):
        return None
    with open(b, "rb") as fh:
        return fh.read()


def gen_bloated_source(rng, mib=65):
    """A little code and a huge zero-filled data section: an object of tens of MiB whose listing is a few lines."""
    code, meta = gen_asm_source(rng, sections=[".text"], random_bytes_p=0.0)
    return code + f"\t.data\nblob:\n\t.zero {mib * 1024 * 1024}\n", meta + [{"name": ".data", "raw": True, "data": True}]
