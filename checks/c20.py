"""C20 - the `jasm` command reports what the library computes.

The CLI *process* is simulated: `jasm.main.main()` runs in a pristine forked
child with argv, working directory (where logs/ is created), stdout/stderr,
log files, the objdump peer and the exit status behind seams; one child = one
invocation.  The reference model is the library API evaluated in its own
pristine children with the same fault plan.  A sample of invocations is
re-run as real `python -m jasm.main` processes to calibrate the stub."""
from __future__ import annotations

import copy
import os
import random
import subprocess
import sys

from sim import child as simchild
from sim import exec as ex
from sim import util

from . import c14

PROP = "C20"
LEVEL = "exploration"
EXHAUSTIVE = False
TIERS = {
    "quick": {"runs": 320, "budget_s": 150, "chunk": 2, "max_shrink": 3, "shrink_each_s": 15, "shrink_budget_s": 50, "calibrate_every": 10},
    "thorough": {"runs": 20000, "budget_s": 3300, "chunk": 4, "max_shrink": 6, "shrink_each_s": 30, "shrink_budget_s": 300, "calibrate_every": 20},
}
INV_PER_WORLD = {"quick": 14, "thorough": 16}
CHILD_TIMEOUT = {"quick": 40, "thorough": 90}
RULE = ("one evaluation = one simulated CLI invocation compared with the library API (bool and address-list modes) run in pristine "
        "processes under the same fault plan; distinct = distinct (option combination, rule family, outcome class, injected fault kind); "
        "non-trivial = every invocation (usage errors, failing operations and successful ones are all checked clauses)")
REAL = ["JASM main(), argparse, logging configuration, log files (real files in the world directory)", "library API as reference (real code)",
        "objdump + subprocess.run", "a sample of invocations re-run as real `python -m jasm.main` processes (calibration)"]
STUB = ["process boundary: argv / stdout / stderr / exit status emulated in a forked child", "injected faults (errno at open/mkdir, failing peer, regex deadline)"]
ASSUMPTIONS = [
    "result lines are recognised by their message ('Matched address: <x>' to the end of the line, 'RESULT: Pattern found|not found'), on stderr or stdout, whatever prefix the log format puts before them",
    "a non-zero exit status on success is not demanded to be absent; what is demanded: usage errors and failing operations exit non-zero, "
    "and whenever the library returns, the CLI prints exactly that verdict and those addresses",
    "under a log-file I/O fault the invocation may either fail (exit != 0) or report exactly the library's result",
]

LOG_FAULTS = [
    {"kind": "log_mkdir_eacces", "target": "logs/*", "nth": 1, "label": "log_mkdir_eacces"},
    {"kind": "log_mkdir_enospc", "target": "logs/*", "nth": 2, "label": "log_mkdir_enospc"},
    {"kind": "log_mkdir_erofs", "target": "logs", "label": "log_mkdir_erofs:top"},
    {"kind": "log_open_eacces", "target": "logs/*", "label": "log_open_eacces"},
    {"kind": "log_write_enospc", "target": "logs/*", "label": "log_write_enospc"},
    {"kind": "replace", "target": "logs", "content": "not a directory\n", "label": "log_dir_is_file"},
]


def make_invocation(rng, world, with_faults):
    files, pool, listings, binaries, macro_files = world
    r = rng.random()
    e = rng.choice(pool)
    if r < 0.55:
        e = rng.choice([x for x in pool if x["family"] != "broken"])
    inp = e["pref"] if (e["pref"] and rng.random() < 0.8) else rng.choice(listings + binaries)
    binary = inp in binaries
    if rng.random() < 0.03:
        inp = rng.choice(["", "-", " "])  # odd values: nothing any route can read; the library fails, so must the command
    if rng.random() < 0.05:
        binary = not binary  # the wrong flag for this file: the library fails, so must the command
    all_matches = rng.random() < 0.5
    only_addr = rng.random() < 0.4
    macros = list(e["macros"]) if e.get("macros") else None
    mr = rng.random()
    if macros and mr < 0.15:
        macros = list(reversed(macros))
    elif macros and mr < 0.22:
        macros = None
    elif not macros and mr < 0.12 and macro_files:
        macros = rng.sample(macro_files, rng.randrange(1, min(2, len(macro_files)) + 1))
    elif macros and mr < 0.30 and macro_files:
        macros = macros + [rng.choice(macro_files)]
    def spell(short, long_, value):
        c = rng.random()
        if c < 0.55:
            return [short, value]
        if c < 0.8:
            return [long_, value]
        if c < 0.9:
            return [long_ + "=" + value]
        return [short + value]

    parts = [spell("-p", "--pattern", e["rel"]), spell("-b", "--binary", inp) if binary else spell("-s", "--assembly", inp)]
    if all_matches:
        parts.append(["--all-matches"])
    if only_addr:
        parts.append(["--return_only_address"])
    if rng.random() < 0.2:
        parts.append(["--debug"])
    if rng.random() < 0.2:
        parts.append(["--info"])
    if rng.random() < 0.1:
        parts.append(["--enable_logging_to_file"])
    if rng.random() < 0.1:
        parts.append(["--dissasemble-program", rng.choice(["objdump", "llvm-objdump"])])
    rng.shuffle(parts)
    if macros:
        # nargs='+': keep it where it cannot swallow anything but its own files
        parts.insert(rng.randrange(len(parts) + 1), ["--macros"] + macros)
    argv = [a for p in parts for a in p]
    usage = None
    u = rng.random()
    if u < 0.04:
        argv = [a for p in parts if not p[0].startswith(("-p", "--pattern")) for a in p]
        usage = "no-pattern"
    elif u < 0.08:
        argv = [a for p in parts if not p[0].startswith(("-s", "-b", "--assembly", "--binary")) for a in p]
        usage = "no-input"
    elif u < 0.12:
        other = rng.choice(listings + binaries)
        argv = argv + (["-s", other] if binary else ["-b", other])
        usage = "both-inputs"
    elif u < 0.14:
        argv = argv + ["--no-such-option"]
        usage = "unknown-option"
    elif u < 0.16:
        argv = [a for p in parts if p[0] != "--macros" for a in p] + ["--macros"]
        usage = "macros-without-files"
    op = {"op": "cli", "argv": argv, "_usage": usage,
          "_lib": {"rule": e["rel"], "input": inp, "type": "binary" if binary else "assembly", "search": "all" if all_matches else "first",
                   "only_addr": only_addr, "macros": macros},
          "_tag": f"{e['family']}:{e['variant']}"}
    if usage is None and not binary and inp in files and len(util.dec_content(files[inp])) < 60000 and rng.random() < 0.05:
        # the listing arrives on a pipe: `... | jasm -p rule -s /dev/stdin` (readable once, not seekable)
        op["stdin_pipe"] = inp
        op["argv"] = ["/dev/stdin" if a == inp else (a[:-len(inp)] + "/dev/stdin" if a.endswith(inp) and a != inp else a) for a in op["argv"]]
        op["_lib"]["input"] = "/dev/stdin"
    if usage is None and rng.random() < 0.12:
        # an earlier invocation ran in the same working directory and left whatever it leaves (logs/, ...)
        same = [x for x in pool if x["family"] == e["family"] and x["rel"] != e["rel"] and x["family"] != "broken"] or [e]
        e2 = rng.choice(same)
        op["_after"] = {"op": "cli", "argv": ["-p", e2["rel"], "-b" if binary else "-s", op["_lib"]["input"]] + (["--macros"] + list(e2["macros"]) if e2.get("macros") else [])}
        if op.get("stdin_pipe"):
            op["_after"]["stdin_pipe"] = op["stdin_pipe"]
    er = rng.random()
    if er < 0.05:
        # no objdump anywhere on PATH (irrelevant for -s runs, fatal for -b runs - for the library and the command alike)
        op["env"] = {"PATH": "{W}/no-such-bin-dir"}
        op["_faultclass"] = op.get("_faultclass") or "env:path_without_objdump"
    elif er < 0.10:
        # variables a tool of this kind might look at (none is read today): values that would change the result if honoured
        mf = rng.choice(macro_files) if macro_files else "x.yaml"
        op["env"] = {"JASM_MACROS": mf, "JASM_OPTS": "--all-matches --return_only_address", "JASM_ARGS": "--all-matches", "JASM_CONFIG": mf,
                     "JASM_DEBUG": "1", "JASM_STYLE": "intel", "OBJDUMP": "/usr/bin/llvm-objdump", "JASM_SECTIONS": ".nope", "NO_COLOR": "1", "COLUMNS": "20"}
    if rng.random() < 0.08:
        op["warnings_error"] = True  # python -W error: a warning anywhere on the way becomes an exception
    if usage is None and rng.random() < 0.15:
        # the working directory has seen earlier runs: old log files, a file with today's very name, a symlinked logs/
        op["_prelogs"] = rng.choice(["old_files", "same_name", "symlink"])
    if with_faults and usage is None:
        fr = rng.random()
        if fr < 0.35:
            op["faults"] = [copy.deepcopy(rng.choice(LOG_FAULTS))]
            op["_faultclass"] = "log"
        elif fr < 0.9:
            name, mk = rng.choice(c14.E_FAULTS)
            libish = {"rule": e["rel"], "input": inp, "type": op["_lib"]["type"]}
            if name == "macro_missing":
                pos = argv.index("--macros") if "--macros" in argv else None
                if pos is None:
                    op["argv"] = argv + ["--macros", "no_such_macros.yaml"]
                    op["_lib"]["macros"] = ["no_such_macros.yaml"]
                else:
                    op["argv"] = argv[:pos + 1] + ["no_such_macros.yaml"] + argv[pos + 1:]
                    op["_lib"]["macros"] = ["no_such_macros.yaml"] + (macros or [])
                op["_faultclass"] = "env:macro_missing"
            else:
                if name.startswith("objdump") and not binary:
                    name, mk = c14.E_FAULTS[0]
                op["faults"] = [mk(libish)]
                op["_faultclass"] = "env:" + name
    return op


def lib_ops(op):
    lib = op["_lib"]
    envf = [f for f in (op.get("faults") or []) if not f["kind"].startswith("log_") and f.get("target") not in ("logs",) and not str(f.get("target", "")).startswith("logs")]
    base = {"op": "match", "rule": lib["rule"], "input": lib["input"], "type": lib["type"], "search": lib["search"],
            "only_addr": lib["only_addr"], "macros": lib["macros"], "faults": envf}
    if op.get("stdin_pipe"):
        base["stdin_pipe"] = op["stdin_pipe"]
    if op.get("warnings_error"):
        base["warnings_error"] = True
    if op.get("env"):
        base["env"] = op["env"]
    return {**base, "ret": "bool"}, {**base, "ret": "list"}


def judge(op, got, ref_bool, ref_list):
    """Violations of the C20 clauses for one invocation."""
    status, verdict, addrs = got[1], got[2], got[3]
    usage = op.get("_usage")
    fclass = op.get("_faultclass") or "none"
    out = []

    def v(clause, detail):
        out.append({"clause": clause, "signature": f"{clause}:{_optsig(op)}:{fclass.split(':')[0]}", "detail": detail,
                    "got": [status, verdict, addrs[:3]], "expected": [_s(ref_bool), _s(ref_list)]})

    if usage:
        if status == 0 or verdict is not None:
            v("usage-error-not-rejected", f"invocation {op['argv']} ({usage}) ended with exit {status}, verdict {verdict}")
        return out
    rb, rl = ref_bool, ref_list
    if rb[0] == "exc" and rl[0] == "exc":
        if status == 0:
            v("failed-operation-exit-zero", f"library raises {rb[1]} for this operation but `jasm {' '.join(op['argv'])}` exited 0 (verdict {verdict})")
        return out
    if rb[0] != "ret" or rl[0] != "ret" or not isinstance(rb[1], bool) or not isinstance(rl[1], list) or rb[1] != bool(rl[1]):
        return out  # the two library modes disagree with each other: not this property's business (C12)
    want = "found" if rb[1] else "notfound"
    if fclass == "log" and status != 0:
        return out  # the invocation failed in its logging set-up: allowed
    if "PATH" not in (op.get("env") or {"PATH": 1}) and status != 0 and verdict is None and not addrs:
        # variables of the harness's guess list (JASM_CONFIG, JASM_OPTS, ...): a command that knows one of them and
        # refuses its (deliberately useless) value loudly - no verdict, no address, non-zero status - reports nothing
        # that differs from the library; honouring it with another verdict or other addresses is what is flagged below
        return out
    if verdict != want:
        v("verdict-differs-from-library", f"`jasm {' '.join(op['argv'])}` exit {status} verdict {verdict!r}, library says {want} ({len(rl[1])} address(es))")
    elif addrs != rl[1]:
        v("addresses-differ-from-library", f"`jasm {' '.join(op['argv'])}` printed {len(addrs)} address line(s) {addrs[:3]}, library list has {len(rl[1])}: {rl[1][:3]}")
    return out


def _optsig(op):
    a = op["argv"]
    bits = []
    bits.append("b" if any(x.startswith("--binary") or (x.startswith("-b") and not x.startswith("--")) for x in a) else "s")
    if "--all-matches" in a:
        bits.append("all")
    if "--return_only_address" in a:
        bits.append("addr")
    if "--macros" in a:
        bits.append("macros")
    if "--debug" in a:
        bits.append("debug")
    return "+".join(bits)


def _s(oc):
    s = repr(oc[:3])
    return s if len(s) < 200 else s[:200] + "..."


PRELOGS = {
    "old_files": {"logs/INFO/2025_12_31_23_59_59.log": "2025-12-31 23:59:59,000 - jasm.logging_config - INFO - RESULT: Pattern found\n\n",
                  "logs/ERROR/2025_12_31_23_59_59.log": "old error\n", "logs/unrelated.txt": "x\n"},
    "same_name": {"logs/INFO/2026_01_02_03_04_05.log": "2026-01-02 03:04:05,000 - jasm.logging_config - INFO - Matched address: dead::beef,|\n",
                  "logs/DEBUG/2026_01_02_03_04_05.log": "older debug\n"},
    "symlink": {"real logs/keep": "x\n", "logs": {"symlink": "real logs"}},
}


def check_invocation(files, op, runner, seed=0):
    if op.get("_prelogs"):
        files = {**files, **PRELOGS[op["_prelogs"]]}
    runner.reset(files) if runner.state else runner.materialise(files)
    if op.get("_after"):
        # one process per invocation, same working directory, nothing cleaned up in between
        runner.run([op["_after"]], seed, keep_logs=True)
    res = runner.run([op], seed)
    got = res["outcomes"][0]
    ob, ol = lib_ops(op)
    if op.get("_usage"):
        rb = rl = ["n/a"]
    else:
        rb = runner.reference(ob, seed)[0]
        rl = runner.reference(ol, seed)[0]
    return judge(op, got, rb, rl), got, rb, rl, res


def calibrate(files, op, got, runner):
    """Run the same invocation as a real process; returns a mismatch description or None."""
    realisable = all(f["kind"] in simchild.REAL_FAULTS or f["kind"] in ("prog_absent",) or (f["kind"] == "rc" and f.get("stdout") == "none")
                     for f in op.get("faults") or [])
    if not realisable:
        return "skipped"
    if op.get("_prelogs"):
        files = {**files, **PRELOGS[op["_prelogs"]]}
    runner.reset(files)
    root = runner.root
    env = dict(os.environ)
    env["PYTHONPATH"] = os.path.join(ex.REPO, "src")
    env["PYTHONDONTWRITEBYTECODE"] = "1"
    env["PYTHONHASHSEED"] = "0"
    for k_, v_ in (op.get("env") or {}).items():
        if v_ is None:
            env.pop(k_, None)
        else:
            env[k_] = str(v_).replace("{W}", root)
    if op.get("warnings_error"):
        env["PYTHONWARNINGS"] = "error"
    else:
        env.pop("PYTHONWARNINGS", None)
    bindir = None
    undo = []
    try:
        for f in op.get("faults") or []:
            p = os.path.join(root, f.get("target", "")) if f.get("target") else None
            if f["kind"] == "remove":
                undo.append((p, open(p, "rb").read()))
                os.remove(p)
            elif f["kind"] == "mkdir_in_place":
                if os.path.isfile(p):
                    undo.append((p, open(p, "rb").read()))
                    os.remove(p)
                os.makedirs(p)
            elif f["kind"] == "replace":
                undo.append((p, open(p, "rb").read() if os.path.isfile(p) else None))
                with open(p, "wb") as fh:
                    fh.write(util.dec_content(f["content"]))
            elif f["kind"] == "prog_absent":
                bindir = os.path.join(runner.dir, "emptybin")
                os.makedirs(bindir, exist_ok=True)
                env["PATH"] = bindir
            elif f["kind"] == "rc":
                bindir = os.path.join(runner.dir, "fakebin")
                os.makedirs(bindir, exist_ok=True)
                with open(os.path.join(bindir, "objdump"), "w") as fh:
                    fh.write(f"#!/bin/sh\necho 'objdump: simulated failure' >&2\nexit {int(f.get('code', 1))}\n")
                os.chmod(os.path.join(bindir, "objdump"), 0o755)
                env["PATH"] = bindir + ":/usr/bin:/bin"
        stdin_data = None
        if op.get("stdin_pipe"):
            stdin_data = util.dec_content(files[op["stdin_pipe"]])[:60000]
        if op.get("_after"):
            subprocess.run([sys.executable, "-m", "jasm.main"] + op["_after"]["argv"], cwd=root, env=env, capture_output=True, input=stdin_data, timeout=120)
        pr = subprocess.run([sys.executable, "-m", "jasm.main"] + op["argv"], cwd=root, env=env, capture_output=True, input=stdin_data, timeout=120)

        class _P:  # decoded view
            returncode = pr.returncode
            stdout = pr.stdout.decode("utf-8", "replace")
            stderr = pr.stderr.decode("utf-8", "replace")
        p = _P
    finally:
        runner.materialise(files)
    verdict, addrs, _n = simchild.parse_cli_stderr(p.stderr + "\n" + p.stdout)
    real = [p.returncode, verdict, addrs]
    sim = [got[1], got[2], got[3]]
    if real != sim:
        return f"real process gave {real[:2]} {len(real[2])} addrs, simulated child gave {sim[:2]} {len(sim[2])} addrs for argv {op['argv']} faults {[f.get('label') for f in op.get('faults') or []]}; real stderr tail: {p.stderr[-300:]!r}"
    return None


def run_one(index, seed, runner, tier, opts):
    rng = random.Random(seed)
    world = c14.make_world(rng)
    files = world[0]
    counters = {"invocations": 0, "usage_errors": 0, "lib_raises": 0, "lib_returns": 0, "lib_modes_disagree": 0, "faults_fired": {}, "seam_escapes": 0,
                "calibrated_real_processes": 0, "calibration_skipped": 0, "exit_status": {}, "verdicts": {}}
    distinct = set()
    violations = []
    digests = []
    harness = []
    warnings = []
    sample = None
    vtime = 0.0
    runner.materialise(files)
    n = INV_PER_WORLD[tier]
    cal_every = TIERS[tier]["calibrate_every"]
    for k in range(n):
        op = make_invocation(rng, world, with_faults=(k % 2 == 1))
        viols, got, rb, rl, res = check_invocation(files, op, runner, seed)
        counters["invocations"] += 1
        counters["seam_escapes"] += len(res["escapes"])
        for e in res["escapes"][:2]:
            warnings.append(f"seam-escape run {index}: {e}")
        vtime += res["vtime"]
        digests.append(util.digest(res["events"]))
        st = str(got[1])
        counters["exit_status"][st] = counters["exit_status"].get(st, 0) + 1
        counters["verdicts"][str(got[2])] = counters["verdicts"].get(str(got[2]), 0) + 1
        if op.get("_usage"):
            counters["usage_errors"] += 1
            cls = "usage:" + op["_usage"]
        elif rb[0] == "exc":
            counters["lib_raises"] += 1
            cls = "raises"
        elif rb[0] == "ret" and rl[0] == "ret" and rb[1] == bool(rl[1]):
            counters["lib_returns"] += 1
            cls = "found" if rb[1] else "notfound"
            if rb[1] and len(rl[1]) > 1:
                cls = "found-many"
        else:
            counters["lib_modes_disagree"] += 1
            cls = "disagree"
        for fi in res["fired"][0]:
            lab = op["faults"][fi]["label"]
            counters["faults_fired"][lab] = counters["faults_fired"].get(lab, 0) + 1
        distinct.add(f"{_optsig(op)}|{op['_tag'].split(':')[0]}|{cls}|{op.get('_faultclass', 'none')}")
        for v in viols[:1]:
            case = {"files": {p: util.enc_content(c) for p, c in files.items()}, "ops": [copy.deepcopy(op)], "extra": {"seed": seed}}
            violations.append({"case": case, "violation": v})
        if (index * n + k) % cal_every == 0:
            try:
                mism = calibrate(files, op, got, runner)
            except Exception as e:  # noqa: BLE001
                mism = f"calibration crashed: {e!r}"
            if mism == "skipped":
                counters["calibration_skipped"] += 1
            else:
                counters["calibrated_real_processes"] += 1
                if mism:
                    harness.append(f"HARNESS-ERROR calibration mismatch (run {index}, invocation {k}): {mism}")
        if sample is None and k == 1:
            sample = {"run": index, "seed": seed, "argv": op["argv"], "faults": [f["label"] for f in op.get("faults") or []],
                      "cli": [got[1], got[2], got[3][:3]], "library_bool": _s(rb), "library_list": _s(rl),
                      "events": [e for e in res["events"] if e["seam"] not in ("op_begin", "op_end")][:10]}
    out = {"evals": counters["invocations"], "counters": counters, "distinct": sorted(distinct), "violations": violations,
           "digest": util.digest(digests), "sample": sample, "vtime": vtime, "warnings": warnings}
    if harness:
        out["harness"] = harness
    return out


def evaluate(case, runner):
    runner.state = {}
    op = case["ops"][-1]
    viols, _got, _rb, _rl, _res = check_invocation(case["files"], op, runner, int((case.get("extra") or {}).get("seed") or 0))
    return viols
