"""C15 - matching a binary equals matching its `objdump -d -M att` text (restricted to config.sections).

objdump is an external peer reached through the subprocess seam.  Per seeded
run: an object file (assembled on the fly from a seeded source with several
sections, instruction text or raw bytes, or a real small ELF of the test
suite), a `sections` list in every shape the property names, a rule built from
the expected listing, and a history prefix of other operations (other
sections, `style: intel`, other binaries) whose state could leak into the
command line JASM composes.  The binary route runs in the simulated process;
the reference is the harness's own `objdump -d -M att [-j s]... file` text fed
through the assembly route in a pristine process."""
from __future__ import annotations

import copy
import os
import random

import yaml

from sim import gen, rules, util
from sim import exec as ex

PROP = "C15"
LEVEL = "exploration"
EXHAUSTIVE = False
TIERS = {
    "quick": {"runs": 4000, "budget_s": 150, "chunk": 8, "max_shrink": 3, "shrink_each_s": 15, "shrink_budget_s": 50},
    "thorough": {"runs": 160000, "budget_s": 3300, "chunk": 16, "max_shrink": 6, "shrink_each_s": 30, "shrink_budget_s": 300},
}
CHILD_TIMEOUT = {"quick": 40, "thorough": 90}
RULE = ("one evaluation = one binary-route operation (stream, address list or verdict) compared with the assembly route on the harness's own "
        "objdump text, or required to fail when objdump fails; distinct = distinct (object shape: #sections/raw bytes/data sections/real ELF, "
        "shape of the sections list, history prefix class, outcome class, injected peer fault); non-trivial = the object has code that the "
        "chosen sections select or the sections list names something absent")
REAL = ["JASM (binary and assembly routes)", "objdump 2.40 (real, proxied and recorded)", "GNU as (object files with seeded sections / raw code bytes)",
        "real ELF files of the test suite (smc.bin, smc_eko.bin, AesCore.bin)", "subprocess.run"]
STUB = ["failing/killed/absent peer in the fault-injecting half of the runs", "the final comparison (two routes, same rule) is a differential check riding on the simulator"]
ASSUMPTIONS = [
    "reference text = stdout of the harness's own `objdump -d -M att [-j s]... <file>` run in the same directory with the same relative path",
    "when that objdump exits non-zero the binary route must raise; rules with style: intel are only used in the history prefix (C15 speaks about att)",
    "no assertion on the literal argv (only behaviour counts); argv is recorded in the event log",
]

REAL_ELFS = ["smc.bin", "smc_eko.bin", "AesCore.bin"]
_ELF_CACHE = {}


def _real_elf(name):
    if name not in _ELF_CACHE:
        p = os.path.join(ex.REPO, "tests", "binary", name)
        try:
            with open(p, "rb") as fh:
                _ELF_CACHE[name] = fh.read()
        except OSError:
            _ELF_CACHE[name] = None
    return _ELF_CACHE[name]


def _sections_of(elf):
    """Section names of an object according to objdump -h (harness side)."""
    import subprocess
    d = os.path.join(util.scratch_root(), f"as-{os.getpid()}")
    os.makedirs(d, exist_ok=True)
    p = os.path.join(d, "hdr.o")
    with open(p, "wb") as fh:
        fh.write(elf)
    out = subprocess.run(["objdump", "-h", p], capture_output=True, text=True).stdout
    names, code = [], []
    lines = out.split("\n")
    for i, ln in enumerate(lines):
        parts = ln.split()
        if len(parts) >= 7 and parts[0].isdigit():
            names.append(parts[1])
            if i + 1 < len(lines) and "CODE" in lines[i + 1]:
                code.append(parts[1])
    return names, code


def make_case(rng, with_faults):
    files = {}
    shape = {}
    r0 = rng.random()
    if r0 < 0.12:
        # mostly the small ones; now and then an object whose listing is hundreds of kB / close to 1 MB
        name = rng.choice(REAL_ELFS) if r0 > 0.012 else ("md5sum" if r0 > 0.003 else "cp.bin")
        elf = _real_elf(name)
        if elf is None:
            return None
        shape["obj"] = "real:" + name
        allsec, code = _sections_of(elf)
        meta = [{"name": s, "raw": False, "data": s not in code} for s in allsec]
    elif r0 < 0.1205:
        # a bloated object: 65 MiB of zero data around a handful of instructions
        src, meta = gen.gen_bloated_source(rng)
        elf = gen.assemble(src)
        if elf is None:
            return None
        shape["obj"] = "as:bloated:65MiB"
        allsec = [m["name"] for m in meta]
        code = [m["name"] for m in meta if not m["data"]]
    elif r0 < 0.122:
        # many one-byte instructions: the listing is several MB and tens of times the size of the object;
        # the rule sits at the very end
        nd = rng.choice([30000, 62000])
        src, meta = gen.gen_dense_source(rng, nd)
        elf = gen.assemble(src)
        if elf is None:
            return None
        shape["obj"] = f"as:dense:{nd}"
        shape["dense"] = True
        allsec, code = [".text"], [".text"]
    elif r0 < 0.13:
        # a big object: tens of thousands of instructions, and a pattern that straddles a "round" instruction index
        nbig = rng.choice([1100, 2100, 4200, 8300, 16500, 17000, 33000])
        src, meta = gen.gen_big_source(rng, nbig)
        elf = gen.assemble(src)
        if elf is None:
            return None
        shape["obj"] = f"as:big:{nbig}"
        shape["big"] = nbig
        allsec, code = [".text"], [".text"]
    elif r0 < 0.17:
        src, meta = gen.gen_asm_source_32(rng)
        elf = gen.assemble(src, bits=32)
        if elf is None:
            return None
        shape["obj"] = "as32:1sec:text"
        allsec, code = [".text"], [".text"]
    elif r0 < 0.19:
        # x32 ABI: an ELFCLASS32 container holding 64-bit code
        src, meta = gen.gen_asm_source(rng, random_bytes_p=0.2)
        elf = gen.assemble(src, bits="x32")
        if elf is None:
            return None
        shape["obj"] = f"asx32:{len(meta)}sec"
        allsec = [m["name"] for m in meta]
        code = [m["name"] for m in meta if not m["data"]]
    elif r0 < 0.21:
        # a PE image of the same code
        src, meta = gen.gen_asm_source(rng, sections=[".text"] + rng.sample([".mycode", ".init"], rng.randrange(0, 2)), random_bytes_p=0.2)
        e0 = gen.assemble(src)
        elf = gen.to_pe(e0) if e0 is not None else None
        if elf is None:
            return None
        shape["obj"] = f"pe:{len(meta)}sec"
        allsec = [m["name"] for m in meta]
        code = [m["name"] for m in meta if not m["data"]]
    elif r0 < 0.26:
        members = []
        meta = []
        for _ in range(rng.randrange(2, 4)):
            msrc, mmeta = gen.gen_asm_source(rng, random_bytes_p=0.2)
            m = gen.assemble(msrc)
            if m is not None:
                members.append(m)
                meta += [x for x in mmeta if x["name"] not in {y["name"] for y in meta}]
        thin_members = None
        if members and rng.random() < 0.4:
            elf, thin_members = gen.make_thin_archive(members)
        else:
            elf = gen.make_archive(members) if members else None
        if elf is None:
            return None
        shape["obj"] = f"{'thin-' if thin_members else ''}archive:{len(members)}members"
        allsec = [m["name"] for m in meta]
        code = [m["name"] for m in meta if not m["data"]]
    else:
        src, meta = gen.gen_asm_source(rng, random_bytes_p=rng.choice((0.0, 0.3, 0.6, 1.0)))
        latin1 = rng.random() < 0.04 and "\u00e9" in src
        elf = gen.assemble(src, encoding="latin-1" if latin1 else "utf-8")  # latin-1: symbol names that are not valid UTF-8
        if elf is None:
            return None
        if latin1:
            shape["symbols"] = "non-utf8"
        shape["obj"] = f"as:{len(meta)}sec:{'raw' if any(m['raw'] and not m['data'] for m in meta) else 'text'}{':data' if any(m['data'] for m in meta) else ''}"
        if rng.random() < 0.08 and len(meta) >= 2:
            sc = gen.scatter_sections(elf, [m["name"] for m in meta], rng)
            if sc is not None:
                elf = sc
                shape["obj"] += ":scattered"
        elif rng.random() < 0.15:
            base = rng.choice([0x400000, 0x10000000, 0xfff00000, 0x7fff00000000, 0xffffffff81000000])
            moved = gen.relocate(elf, base)
            if moved is not None:
                elf = moved
                shape["obj"] += ":hiaddr" if base >= 0x10000000 else ":moved"
        allsec = [m["name"] for m in meta]
        code = [m["name"] for m in meta if not m["data"]]
    names = gen.pick_names(rng)
    OBJ, RULE = names["bin"], names["rule"]
    if "archive" in shape["obj"]:
        OBJ = rng.choice(["lib.a", "libs/my lib.a", OBJ])
        if shape["obj"].startswith("thin"):
            base_dir = os.path.dirname(OBJ)
            for rel, mb in thin_members.items():
                files[(base_dir + "/" if base_dir else "") + rel] = mb
    if shape["obj"].startswith("pe:") and rng.random() < 0.5:
        OBJ = rng.choice(["app.exe", "BOOTX64.EFI", OBJ])
    files[OBJ] = elf
    data = [s for s in allsec if s not in code]
    # ---- the sections list, in every shape the property names
    c = rng.randrange(12)
    if c == 0:
        sections, sshape = None, "absent"
    elif c == 1:
        sections, sshape = [], "empty"
    elif c == 2 and code:
        sections, sshape = [rng.choice(code)], "one"
    elif c == 3 and len(code) >= 2:
        k = rng.randrange(2, len(code) + 1)
        pick = [s for s in code if s in set(rng.sample(code, k))]
        sections, sshape = pick, "several-file-order"
    elif c == 4 and len(code) >= 2:
        k = rng.randrange(2, len(code) + 1)
        pick = [s for s in code if s in set(rng.sample(code, k))]
        sections, sshape = list(reversed(pick)), "several-reversed"
    elif c == 5 and code:
        s = rng.choice(code)
        sections, sshape = [s, s], "duplicated"
    elif c == 6:
        sections, sshape = [".nope"], "absent-name-alone"
    elif c == 7 and code:
        sections, sshape = rng.sample([rng.choice(code), ".nope"], 2), "present+absent"
    elif c == 8 and data:
        sections, sshape = [rng.choice(data)], "data-section"
    elif c == 9 and data and code:
        sections, sshape = rng.sample([rng.choice(data), rng.choice(code)], 2), "data+code"
    elif c == 10 and code:
        sections, sshape = [rng.choice(code)], "one"
    else:
        sections, sshape = None, "absent"
    shape["sections"] = sshape
    rc, text = gen.objdump_of(elf, sections)
    dec = gen.decode_listing(text) if rc == 0 else []
    if shape.get("big") and rc == 0:
        insn = [d for d in dec if d[1]]
        bounds = [b for b in (256, 512, 1000, 1024, 2000, 2048, 4096, 5000, 8192, 10000, 16384, 20000, 32768) if b + 3 < len(insn)]
        if bounds:
            b = rng.choice(bounds[-3:])
            items = []
            for (_a, mn, ops) in insn[b - 2:b + 2]:
                it = gen.instr_item(rng, mn, ops, substr_ok=False, with_ops_p=1.0)
                items.append(it if it is not None else mn)
            dec = []  # the rule is fixed below
            big_doc = {"pattern": items}
            if sections is not None:
                big_doc = {"config": {"sections": list(sections)}, **big_doc}
    if shape.get("dense") and rc == 0:
        big_doc = {"pattern": [{"xor": ["%eax", "%eax"]}, "mov", "cltq"]}
        if sections is not None:
            big_doc = {"config": {"sections": list(sections)}, **big_doc}
        shape["big"] = True
        dec = []
    built = rules.build_found_rule(rng, dec, features={f for f in ("or", "not", "times", "cfg_flags", "cfg_style", "cfg_plugins", "capture") if rng.random() < 0.35},
                                   sections=sections, binary=True) if len([d for d in dec if d[1]]) >= 3 else None
    if shape.get("big") and rc == 0 and "big_doc" in locals():
        doc = big_doc
    elif built is not None:
        doc = built[0]
    else:
        doc = {"pattern": [rng.choice(["mov", "add", "nop", "push", "bad", "ret"])]}
        if sections is not None:
            doc = {"config": {"sections": list(sections)}, **doc}
    if (not any(d[1] for d in dec) and rng.random() < 0.6) or rng.random() < 0.04:
        # a rule that also matches an empty stream (nothing disassembled: data only, empty or absent sections)
        keepcfg = doc.get("config")
        doc = {"pattern": rng.choice([[{"nop": {"times": {"min": 0, "max": 2}}}], [{"$or": ["fxsave", "vpxor"], "times": {"min": 0, "max": 1}}], [{"fxsave": {"times": 0}}]])}
        if keepcfg:
            doc = {"config": keepcfg, **doc}
        shape["rule"] = "matches-empty"
    if sections is None and "config" in doc:
        doc["config"].pop("sections", None)
    # a sibling that a glob reading of the name would pick up instead (x[1]?.o matches x1z.o, star*.o matches starzz.o)
    if any(ch in OBJ for ch in "*?["):
        import re as _re
        sib = _re.sub(r"\[(.)[^\]]*\]", r"\1", OBJ).replace("?", "z").replace("*", "zz")
        if sib != OBJ and sib not in files:
            dsrc, _dm2 = gen.gen_asm_source(rng)
            dobj = gen.assemble(dsrc)
            if dobj is not None:
                files[sib] = dobj
    if rng.random() < 0.06:
        doc.setdefault("config", {})["style"] = "intel"
        shape["style"] = "intel"
    if rng.random() < 0.3:
        # an address range in the rule: tags branch operands on both routes, must not change what is disassembled
        lo = rng.choice([0x0, 0x4, 0x10, 0x400000])
        doc.setdefault("config", {})["valid_addr_range"] = {"min": "0x%x" % lo, "max": "0x%x" % (lo + rng.choice([0x8, 0x20, 0x1000, 0xffffff]))}
        shape["range"] = True
    files[RULE] = gen.dump_yaml(doc)
    # ---- how the input is named: through a symlinked directory and `..` (the OS resolves the link first)
    if rng.random() < 0.08 and "/" not in OBJ:
        files["store/v2/keep"] = "x"
        files["store/" + OBJ] = files.pop(OBJ)
        files["work/current"] = {"symlink": "../store/v2"}
        decoy_src, _dm = gen.gen_asm_source(rng)
        decoy = gen.assemble(decoy_src)
        if decoy is not None:
            files["work/" + OBJ] = decoy
        OBJ = "work/current/../" + OBJ
        shape["path"] = "symlink+dotdot"
    elif rng.random() < 0.04 and "/" not in OBJ:
        # the object is reached through a symbolic link to the file itself
        files["objs/real-" + OBJ] = files.pop(OBJ)
        files[OBJ] = {"symlink": "objs/real-" + OBJ}
        shape["path"] = "symlink-to-file"
    elif rng.random() < 0.05:
        OBJ = "./" + OBJ if rng.random() < 0.5 else OBJ.replace("/", "//") if "/" in OBJ else ".//" + OBJ
        shape["path"] = "dot-or-double-slash"
    # ---- history prefix: what a leak would carry over
    prefix = []
    pclass = "none"
    np_ = rng.choice((0, 0, 1, 1, 2))
    for i in range(np_):
        k = rng.randrange(5)
        if k == 0:
            other = [s for s in allsec if not sections or s not in sections] or [".text"]
            pdoc = {"config": {"sections": [rng.choice(other)]}, "pattern": ["mov"]}
            pc = "other-sections"
        elif k == 1:
            pdoc = {"config": {"style": "intel", "sections": list(allsec[:2])}, "pattern": ["mov"]}
            pc = "intel+sections"
        elif k == 2:
            pdoc = {"config": {"sections": [".nope"]}, "pattern": ["mov"]}
            pc = "failing-sections"
        elif k == 3:
            pdoc = {"config": {"sections": list(allsec), "valid_addr_range": {"min": "0x0", "max": "0xffff"}, "mnemonics-full-match": True}, "pattern": ["mo"]}
            pc = "all-sections+range+flags"
        else:
            pdoc = {"config": {"sections": ".text"}, "pattern": ["mov"]}
            pc = "invalid-sections-type"
        rel = f"prefix{i}.yaml"
        files[rel] = gen.dump_yaml(pdoc)
        pin = OBJ
        if rng.random() < 0.3:
            src2, _m2 = gen.gen_asm_source(rng)
            e2 = gen.assemble(src2)
            if e2 is not None:
                files[f"other{i}.o"] = e2
                pin = f"other{i}.o"
        prefix.append({"op": "match", "rule": rel, "input": pin, "type": "binary", "ret": rng.choice(["bool", "stream", "list"]), "search": rng.choice(["first", "all"])})
        pclass = pc if pclass == "none" else pclass + "," + pc
    # an earlier disassembly of a BIGGER object failed after objdump had printed everything (exit 1 with full stdout)
    if rng.random() < 0.08:
        bsrc, _bm = gen.gen_big_source(rng, rng.choice([300, 900]))
        bigobj = gen.assemble(bsrc)
        if bigobj is not None:
            files["earlier/big.o"] = bigobj
            files["earlier/plain.yaml"] = gen.dump_yaml({"pattern": ["mov"]})
            prefix.append({"op": "match", "rule": "earlier/plain.yaml", "input": "earlier/big.o", "type": "binary", "ret": "bool",
                           "faults": [{"kind": "rc", "code": 1, "stdout": "full", "stderr": "objdump: simulated late failure", "label": "rc1_fullstdout"}]})
            pclass = "failed-big-listing" if pclass == "none" else pclass + ",failed-big-listing"
    # the same path held another object a moment ago, and was disassembled with the same rule
    if rng.random() < 0.15 and "path" not in shape and not isinstance(files.get(OBJ), dict):
        src0, _m0 = gen.gen_asm_source(rng, sections=[m["name"] for m in meta][:4] if not shape["obj"].startswith("real") else None)
        e0 = gen.assemble(src0)
        if e0 is not None and e0 != elf:
            files[OBJ] = e0
            prefix.append({"op": "match", "rule": RULE, "input": OBJ, "type": "binary", "ret": "stream"})
            prefix.append({"op": "write", "path": OBJ, "content": util.enc_content(elf)})
            pclass = "same-path-rebuilt" if pclass == "none" else pclass + ",same-path-rebuilt"
    shape["prefix"] = pclass
    only_addr = rng.random() < 0.3
    ops = list(prefix)
    main = [
        {"op": "match", "rule": RULE, "input": OBJ, "type": "binary", "ret": "stream", "_main": True},
        {"op": "match", "rule": RULE, "input": OBJ, "type": "binary", "ret": "list", "search": "all", "only_addr": only_addr, "_main": True},
        {"op": "match", "rule": RULE, "input": OBJ, "type": "binary", "ret": "bool", "search": "first", "_main": True},
    ]
    # (a side generator, so that every other choice of the case stays what it was before this dimension existed)
    rng_c = random.Random(int(util.digest(list(rng.getstate()[1][:16]))[:16], 16))
    if rng_c.random() < 0.12:
        # how the caller uses the API: the loop idiom (the previous object dies after the next was built) and the
        # object it still holds asked to match once more, nothing in between
        for m in main:
            m["hold_object"] = True
        k_again = rng_c.randrange(len(main))
        main.insert(k_again + 1, dict(main[k_again], rematch=True))
        shape["caller"] = "held+rematch"
    if rng.random() < 0.08:
        # variables a tool of this kind might look at (none is read today)
        for m in main:
            m["env"] = {"OBJDUMP": "/usr/bin/llvm-objdump", "JASM_STYLE": "intel", "JASM_SECTIONS": ".nope", "OBJDUMP_FLAGS": "-D", "LC_ALL": "C", "COLUMNS": "20"}
        shape["env"] = True
    if with_faults and rng.random() < 0.5:
        f = rng.choice([
            {"kind": "rc", "code": 1, "stdout": "none", "label": "rc1_nostdout"},
            {"kind": "rc", "code": 1, "stdout": "full", "label": "rc1_fullstdout"},
            {"kind": "rc", "code": 2, "stdout": "torn", "tear": rng.random(), "label": "rc2_torn"},
            {"kind": "killed", "stdout": "torn", "tear": rng.random(), "label": "killed_torn"},
            {"kind": "killed", "stdout": "torn", "tear": rng.random(), "line_boundary": True, "label": "killed_torn_lineboundary"},
            {"kind": "killed", "stdout": "full", "label": "killed_fullstdout"},
            {"kind": "prog_absent", "label": "prog_absent"},
        ])
        for m in main:
            m["faults"] = [copy.deepcopy(f)]
        shape["fault"] = f["label"]
    else:
        shape["fault"] = "none"
    ops += main
    shape["names"] = f"{'plain' if OBJ in ('in.o', 'in.bin') else 'odd'}"
    log_level = rng.choice([None, None, None, "DEBUG", "INFO"])
    if log_level:
        shape["log"] = log_level
    return {"files": {k: util.enc_content(v) for k, v in files.items()}, "ops": ops, "extra": {"shape": shape, "rule_file": RULE, "log_level": log_level}}


def _rule_sections(files, rel):
    """(ok, sections, style) as written in the rule the operation names."""
    try:
        doc = yaml.safe_load(util.dec_content(files[rel]).decode("utf-8"))
        cfg = doc.get("config") or {}
        sections = cfg.get("sections")
        style = cfg.get("style")
    except Exception:  # noqa: BLE001
        return False, None, None
    if sections is not None and (not isinstance(sections, list) or not all(isinstance(s, str) for s in sections)):
        return False, None, None
    # C15 is read literally: the reference is the att text whatever `style` says (on this tree `style: intel`
    # is inert because objdump ignores `-M Intel`, so the statement holds for such rules too)
    if style not in (None, "att", "intel"):
        return False, None, None
    return True, sections, style


def _cmp(oc):
    # both routes failing is agreement, whatever the exception classes (one route may word its errors better)
    return oc[:1] if oc[0] == "exc" else oc


def evaluate_case(case, runner, seed=0):
    files = case["files"]
    ops = case["ops"]
    runner.materialise(files)
    res = runner.run(ops, seed, {"log_level": (case.get("extra") or {}).get("log_level")})
    viols = []
    checked = 0
    info = {"argv": [e["argv"] for e in res["events"] if e["seam"] == "spawn"], "escapes": res["escapes"], "vtime": res["vtime"],
            "digest": util.digest(res["events"]), "fired": res["fired"], "classes": []}
    state = dict(files)
    runner.reset(files)
    for k, op in enumerate(ops):
        if op["op"] == "write":
            state[op["path"]] = op.get("content")
            runner.apply_write(op)
            continue
        if not op.get("_main") and k != len(ops) - 1:
            continue
        if op.get("type") != "binary":
            continue
        ok, sections, _style = _rule_sections(state, op["rule"])
        if not ok:
            continue
        got = res["outcomes"][k]
        checked += 1
        if op.get("faults") and res["fired"][k]:
            info["classes"].append("peer-fault:" + ("raised" if got[0] == "exc" else "returned"))
            if got[0] != "exc":
                viols.append({"clause": "peer-failure-produced-a-result", "index": k,
                              "signature": f"peer-failure-produced-a-result:{op['faults'][0].get('label')}",
                              "detail": f"objdump failed ({op['faults'][0].get('label')}) yet the binary route returned {_short(got)}",
                              "got": _short(got), "expected": "an exception"})
            continue
        # the harness's own disassembly, same directory, same relative path
        rc, text, err, argv = gen.harness_objdump(op["input"], sections, "att", cwd=runner.root)
        if rc != 0:
            info["classes"].append("objdump-fails:" + ("raised" if got[0] == "exc" else "returned"))
            if got[0] != "exc":
                viols.append({"clause": "objdump-fails-but-binary-route-returns", "index": k,
                              "signature": f"objdump-fails-but-binary-route-returns:{_sshape(sections)}",
                              "detail": f"`{' '.join(argv)}` exits {rc} ({err.strip()[:120]}) but the binary route returned {_short(got)}; JASM ran {info['argv'][-1:]}",
                              "got": _short(got), "expected": "an exception"})
            continue
        runner._put("ref.s", gen.LAST_OBJDUMP_STDOUT)  # byte for byte what objdump printed
        ref_op = {kk: vv for kk, vv in op.items() if kk not in ("faults", "_main")}
        ref_op.update({"input": "ref.s", "type": "assembly"})
        ref = runner.reference(ref_op, seed)[0]
        info["classes"].append(f"{op.get('ret')}:{'exc' if ref[0] == 'exc' else ('empty' if not ref[1] else 'nonempty')}")
        if _cmp(got) != _cmp(ref):
            viols.append({"clause": "binary-route-differs-from-objdump-text-route", "index": k,
                          "signature": f"binary-route-differs:{op.get('ret')}:{_sshape(sections)}",
                          "detail": f"sections={sections}: binary route ({op.get('ret')}) gave {_short(got)}; assembly route on `{' '.join(argv)}` output gives {_short(ref)}; JASM ran {info['argv'][-1:]}",
                          "got": _short(got), "expected": _short(ref)})
    info["checked"] = checked
    return viols, info


def _sshape(sections):
    if sections is None:
        return "absent"
    if not sections:
        return "empty"
    return f"{len(sections)}{'+dup' if len(set(sections)) < len(sections) else ''}{'+nope' if '.nope' in sections else ''}"


def _short(oc):
    s = repr(oc[:3])
    return s if len(s) < 260 else s[:260] + "..."


def run_one(index, seed, runner, tier, opts):
    rng = random.Random(seed)
    counters = {"cases": 0, "discarded": 0, "checked_ops": 0, "faults_fired": {}, "seam_escapes": 0, "sections_shape": {}, "object_shape": {}, "outcome_class": {}}
    case = make_case(rng, with_faults=(index % 2 == 1))
    if case is None:
        counters["discarded"] += 1
        return {"evals": 0, "counters": counters, "distinct": [], "violations": [], "digest": "discarded", "sample": None}
    case["extra"]["seed"] = seed
    viols, info = evaluate_case(case, runner, seed)
    shape = case["extra"]["shape"]
    counters["cases"] += 1
    counters["checked_ops"] += info["checked"]
    counters["seam_escapes"] += len(info["escapes"])
    counters["sections_shape"][shape["sections"]] = 1
    counters["object_shape"][shape["obj"]] = 1
    for cl in info["classes"]:
        counters["outcome_class"][cl] = counters["outcome_class"].get(cl, 0) + 1
    for k, op in enumerate(case["ops"]):
        for fi in info["fired"][k]:
            lab = op["faults"][fi]["label"]
            counters["faults_fired"][lab] = counters["faults_fired"].get(lab, 0) + 1
    distinct = {f"{shape['obj']}|{shape['sections']}|{shape['prefix']}|{cl}|{shape['fault']}" for cl in info["classes"]}
    violations = []
    for v in viols[:1]:
        c = copy.deepcopy(case)
        c["ops"] = c["ops"][:v["index"] + 1]
        violations.append({"case": c, "violation": v})
    sample = None
    if index % 16 == 2:
        sample = {"run": index, "seed": seed, "shape": shape, "rule": util.dec_content(case["files"][case["extra"]["rule_file"]]).decode()[:400], "objdump_argv_seen": info["argv"][:5],
                  "ops": [{k: v for k, v in o.items() if k in ("rule", "input", "ret", "search")} for o in case["ops"]], "classes": info["classes"]}
    return {"evals": info["checked"], "counters": counters, "distinct": sorted(distinct), "violations": violations, "digest": info["digest"],
            "sample": sample, "vtime": info["vtime"], "warnings": [f"seam-escape run {index}: {e}" for e in info["escapes"][:2]]}


def evaluate(case, runner):
    runner.state = {}
    viols, _info = evaluate_case(case, runner, int((case.get("extra") or {}).get("seed") or 0))
    return [v for v in viols if v["index"] == len(case["ops"]) - 1]
