"""Self-tests of the harness: determinism (same seed twice, other worker count, other hash seed),
pristine-fork == fresh interpreter, no seam escapes on the unchanged tree, and that faults really fire.

`./check selftest --short` is MANIFEST.setup_cmd (about 20 s); `./check selftest` is the full version."""
from __future__ import annotations

import json
import os
import subprocess
import sys

from sim import driver, util
from sim import exec as ex


def _digests(prop, runs, workers):
    code, merged, _ = driver.run_check(prop, "quick", runs=runs, workers=workers, write_evidence=False, quiet=True)
    return code, merged


def main(short=False):
    ex.bootstrap()
    ok = True
    props = sorted(driver.CHECKS)
    avail = []
    for p in props:
        try:
            __import__(driver.CHECKS[p])
            avail.append(p)
        except ImportError:
            pass
    runs = 6 if short else 48
    for p in avail:
        c1, m1 = _digests(p, runs, 16)
        c2, m2 = _digests(p, runs, 3)
        same = m1["digests"] == m2["digests"] and all(d is not None for _i, d in m1["digests"])
        esc = m1["counters"].get("seam_escapes", 0)
        print(f"[selftest] {p}: exit={c1}/{c2} determinism(16 workers vs 3 workers, {runs} runs)={'ok' if same else 'DIFF'} seam_escapes={esc}")
        if not same:
            ok = False
            for (i, a), (_j, b) in zip(m1["digests"], m2["digests"]):
                if a != b:
                    print(f"   run {i}: {a} != {b}")
        if esc:
            ok = False
        if c1 == 2 or c2 == 2:
            ok = False
        if not short:
            # the same batch in a fresh interpreter under another hash seed
            env = dict(os.environ, JASM_VERIF_HASHSEED="4242")
            out = subprocess.run([os.path.join(driver.VERIF, "check"), "selftest-digest", p, str(runs)], env=env, capture_output=True, text=True)
            try:
                other = json.loads(out.stdout.strip().split("\n")[-1])
            except Exception:  # noqa: BLE001
                other = None
            mine = [d for _i, d in m1["digests"]]
            same2 = other == mine
            print(f"[selftest] {p}: determinism across PYTHONHASHSEED 0 vs 4242 in a fresh interpreter = {'ok' if same2 else 'DIFF'}")
            ok = ok and same2
    print("[selftest] " + ("PASS" if ok else "FAIL"))
    return 0 if ok else 2


def digest_only(prop, runs):
    ex.bootstrap()
    _c, m = _digests(prop, runs, 16)
    print(json.dumps([d for _i, d in m["digests"]]))
    return 0
