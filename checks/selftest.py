"""Self-tests of the harness: determinism (same seed twice, other worker count, other hash seed),
pristine-fork == fresh interpreter, no seam escapes on the unchanged tree, and that faults really fire.

`./check selftest --short` is MANIFEST.setup_cmd (about 20 s); `./check selftest` is the full version."""
from __future__ import annotations

import json
import os
import subprocess
import sys

from sim import driver, util
from sim import exec as ex


def _digests(prop, runs, workers):
    code, merged, _ = driver.run_check(prop, "quick", runs=runs, workers=workers, write_evidence=False, quiet=True)
    return code, merged


def main(short=False):
    ex.bootstrap()
    ok = True
    props = sorted(driver.CHECKS)
    avail = []
    for p in props:
        try:
            __import__(driver.CHECKS[p])
            avail.append(p)
        except ImportError:
            pass
    runs = 6 if short else 120
    for p in avail:
        c1, m1 = _digests(p, runs, 16)
        c2, m2 = _digests(p, runs, 3)
        same = m1["digests"] == m2["digests"] and all(d is not None for _i, d in m1["digests"])
        esc = m1["counters"].get("seam_escapes", 0)
        print(f"[selftest] {p}: exit={c1}/{c2} determinism(16 workers vs 3 workers, {runs} runs)={'ok' if same else 'DIFF'} seam_escapes={esc}")
        if not same:
            ok = False
            for (i, a), (_j, b) in zip(m1["digests"], m2["digests"]):
                if a != b:
                    print(f"   run {i}: {a} != {b}")
        if esc:
            ok = False
        if c1 == 2 or c2 == 2:
            ok = False
        if not short:
            # the same batch in a fresh interpreter under another hash seed
            env = dict(os.environ, JASM_VERIF_HASHSEED="4242")
            out = subprocess.run([os.path.join(driver.VERIF, "check"), "selftest-digest", p, str(runs)], env=env, capture_output=True, text=True)
            try:
                other = json.loads(out.stdout.strip().split("\n")[-1])
            except Exception:  # noqa: BLE001
                other = None
            mine = [d for _i, d in m1["digests"]]
            same2 = other == mine
            print(f"[selftest] {p}: determinism across PYTHONHASHSEED 0 vs 4242 in a fresh interpreter = {'ok' if same2 else 'DIFF'}")
            ok = ok and same2
    ok = _fresh_interpreter_equals_fork(4 if short else 40) and ok
    if not short:
        ok = _faults_fire() and ok
    print("[selftest] " + ("PASS" if ok else "FAIL"))
    return 0 if ok else 2


def _fresh_interpreter_equals_fork(n):
    """A sample of operations evaluated in pristine forked children and in real fresh interpreters must agree."""
    import random
    import tempfile
    from checks import c14
    runner = ex.Runner("fresh", timeout_s=60)
    bad = 0
    done = 0
    try:
        for i in range(n):
            rng = random.Random(util.derive_seed(0, "selftest-fresh", i))
            world = c14.make_world(rng)
            files = world[0]
            ops = [op for op in c14.make_history(rng, world, with_faults=(i % 2 == 1)) if op["op"] == "match"][:4]
            runner.materialise(files)
            for op in ops:
                forked = ex.run_child(runner.root, [op], 0, 60)["outcomes"][0]
                runner.reset(files)
                with tempfile.NamedTemporaryFile("w", suffix=".json", dir=runner.dir, delete=False) as fh:
                    json.dump([op], fh)
                    opsfile = fh.name
                env = dict(os.environ, PYTHONPATH=driver.VERIF, PYTHONHASHSEED="0", PYTHONDONTWRITEBYTECODE="1")
                p = subprocess.run([sys.executable, "-B", "-m", "sim.fresh", runner.root, opsfile], env=env, capture_output=True, text=True, cwd=driver.VERIF)
                os.remove(opsfile)
                runner.reset(files)
                try:
                    fresh = json.loads(p.stdout.strip().split("\n")[-1])["outcomes"][0]
                except Exception:  # noqa: BLE001
                    print("[selftest] fresh interpreter run failed:", p.stderr[-400:])
                    bad += 1
                    continue
                done += 1
                a = forked[:2] if forked[0] == "exc" else forked
                b = fresh[:2] if fresh[0] == "exc" else fresh
                if json.loads(json.dumps(a)) != b:
                    bad += 1
                    print(f"[selftest] fork != fresh interpreter for {op.get('_tag')}: {str(a)[:120]} vs {str(b)[:120]}")
    finally:
        runner.close()
    print(f"[selftest] pristine fork == fresh interpreter on {done} operations: {'ok' if bad == 0 else 'DIFF'}")
    return bad == 0


def _faults_fire():
    """Every fault kind of the catalogue must actually have fired in a modest C17 batch."""
    _c, m = _digests("C17", 64, 16)
    fired = m["counters"].get("faults_fired", {})
    need = ["eacces:rule", "emfile:rule", "eio_read:rule", "enoent:rule", "eisdir:rule", "bad_utf8:rule", "enoent:input", "eio_read:input",
            "exists_false:binary", "prog_absent:objdump", "rc1_nostdout:objdump", "killed_torn_midline:objdump", "not_elf:binary",
            "regex_timeout_at_start:search", "regex_timeout_at_start:finditer", "regex_timeout_after_k_matches:finditer", "log_mkdir_eacces", "log_open_eacces", "log_write_enospc", "log_dir_is_file",
            "D:malformed:torn", "D:pattern_missing", "D:mfm_str", "D:sections_str", "D:var_badhex", "D:empty_group:$or:ins", "D:not_arity:2:ins",
            "D:deref_no_main_reg:rest", "D:times_negative:int:inner:name", "D:times_inverted:sibling:name+ops", "D:undefined_macro:item",
            "D:undefined_macro:key_times", "D:macro_file_empty", "enoent:macrofile"]
    missing = [k for k in need if not fired.get(k)]
    print(f"[selftest] C17 fault kinds fired at least once in 64 workloads: {len(need) - len(missing)}/{len(need)}" + (f" MISSING {missing}" if missing else ""))
    return not missing


def digest_only(prop, runs):
    ex.bootstrap()
    _c, m = _digests(prop, runs, 16)
    print(json.dumps([d for _i, d in m["digests"]]))
    return 0
