"""Sensitivity self-test: planted regressions the checks must catch (and negative controls they must not).

Each mutant is a textual edit applied to a scratch copy of the tree under test
(outside /repo and /verif, removed right after); the property's quick check is
run against the copy through JASM_VERIF_REPO and must exit 1 with a VIOLATION
(or exit 0 for a negative control), and the replay file must reproduce it.

usage: /venv/bin/python -m checks.sensitivity [--only ID,...] [--prop C14] [--runs N]"""
from __future__ import annotations

import argparse
import os
import re
import shutil
import subprocess
import sys
import tempfile
import time

VERIF = os.path.dirname(os.path.dirname(os.path.abspath(__file__)))
SRC = "src/jasm/"

# (id, property, file, old, new, expect)  expect: "detect" | "silent-ok" (negative control: behaviour preserving)
MUTANTS = [
    # ------------------------------------------------------------------ C14
    ("c14-range-not-reset", "C14", "global_definitions.py",
     '            self._set_info("valid_addr_range", None)', "            pass", "detect"),
    ("c14-sections-only-when-present", "C14", "global_definitions.py",
     '        sections = config.get("sections", [])', '        sections = config.get("sections", self.get_info("sections") or [])', "detect"),
    ("c14-style-only-when-present (unobservable: objdump ignores -M Intel)", "C14", "global_definitions.py",
     '        self._set_info("assembly_style", assembly_style)', '        if style or self.get_info("assembly_style") is None:\n            self._set_info("assembly_style", assembly_style)', "silent-ok"),
    ("c14-flags-sticky-true", "C14", "global_definitions.py",
     '        mnemonics = config.get("mnemonics-full-match", False)', '        mnemonics = config.get("mnemonics-full-match", bool(self.get_info(PartialMatchingConfig.MnemonicsFullMatch)))', "detect"),
    ("c14-flag-lookup-cached", "C14", "jasm_regex/tree_generators/pattern_node_implementations/mnemonic_and_operand/mnemonic_and_operand.py",
     "    @staticmethod\n    def allow_matching_substring(", "    @staticmethod\n    @__import__('functools').lru_cache(maxsize=None)\n    def allow_matching_substring(", "detect"),
    ("c14-captures-class-level", "C14", "jasm_regex/tree_generators/capture_manager.py",
     "    def __init__(self) -> None:\n        self._capture_group_references: list[Capture] = []", "    _capture_group_references: list[Capture] = []\n\n    def __init__(self) -> None:\n        pass", "detect"),
    ("c14-load-file-memoised", "C14", "jasm_regex/yaml2regex.py",
     "    @staticmethod\n    def load_file(file: str) -> Any:", "    @staticmethod\n    @__import__('functools').lru_cache(maxsize=None)\n    def load_file(file: str) -> Any:", "detect"),
    ("c14-objdump-flags-class-level", "C14", "stringify_asm/implementations/gnu_objdump/gnu_objdump_disassembler.py",
     '        default_flags = ["-d"]\n\n        flags = default_flags', '        flags = GNUObjdumpDisassembler._flags\n        if not flags:\n            flags.append("-d")', "detect"),
    ("c14-addr-list-class-level", "C14", "matched_observers.py",
     "        self.addr_list: List[str] = []", "        self.addr_list = MatchedObserver._shared", "detect"),
    ("c14-disassembly-cached-by-path", "C14", "stringify_asm/implementations/null_disassembler.py",
     "    def disassemble(self, input_file: str) -> str:", "    @__import__('functools').lru_cache(maxsize=None)\n    def disassemble(self, input_file: str) -> str:", "silent-ok"),
    ("c14-listing-cached-by-path", "C14", "stringify_asm/implementations/null_disassembler.py",
     "    def disassemble(self, input_file: str) -> str:\n        with open(input_file, \"r\", encoding=\"utf-8\") as f:\n            return f.read()",
     "    _cache: dict = {}\n\n    def disassemble(self, input_file: str) -> str:\n        if input_file not in self._cache:\n            with open(input_file, \"r\", encoding=\"utf-8\") as f:\n                self._cache[input_file] = f.read()\n        return self._cache[input_file]", "detect"),
    ("c14-descriptor-leaked-per-operation", "C14", "jasm_regex/yaml2regex.py",
     "        with open(file=file, mode=\"r\", encoding=\"utf-8\") as file_descriptor:\n            return yaml.load(stream=file_descriptor.read(), Loader=yaml.SafeLoader)",
     "        file_descriptor = open(file=file, mode=\"r\", encoding=\"utf-8\")\n        Yaml2Regex._keep = getattr(Yaml2Regex, \"_keep\", []) + [file_descriptor]\n        return yaml.load(stream=file_descriptor.read(), Loader=yaml.SafeLoader)", "detect"),
    # ------------------------------------------------------------------ C17
    ("c17-listing-enoent-swallowed", "C17", "stringify_asm/implementations/null_disassembler.py",
     "        with open(input_file, \"r\", encoding=\"utf-8\") as f:\n            return f.read()",
     "        try:\n            with open(input_file, \"r\", encoding=\"utf-8\") as f:\n                return f.read()\n        except FileNotFoundError:\n            return \"\"", "detect"),
    ("c17-objdump-error-swallowed", "C17", "stringify_asm/implementations/shell_disassembler.py",
     "            raise BinaryFileFormatNotSupported(exc.stderr) from exc", "            return exc.stdout or \"\"", "detect"),
    ("c17-check-false-and-rc-ignored", "C17", "stringify_asm/implementations/shell_disassembler.py",
     "                check=True,\n            )\n\n            # Check the command executed correctly\n            if result.returncode == 0:", "                check=False,\n            )\n\n            # Check the command executed correctly\n            if True:", "detect"),
    ("c17-flag-type-check-removed", "C17", "global_definitions.py",
     "        if not isinstance(mnemonics, bool) or not isinstance(operands, bool):", "        if False:", "detect"),
    # (a negative control until the workloads had macro libraries the rule does not need: when the skipped file is needed the
    #  undefined-macro check of fix f2bfc4a is loud anyway; when it is not, the operation returns a verdict although a named
    #  file is missing - clause 1 of the C17 oracle)
    ("c17-missing-macro-file-skipped", "C17", "jasm_regex/yaml2regex.py",
     "        for macro_file in self.macros_from_terminal_filepath:\n", "        for macro_file in self.macros_from_terminal_filepath:\n            if not __import__('os').path.isfile(macro_file):\n                continue\n", "detect"),
    ("c17-timeout-swallowed", "C17", "consumer.py",
     "            logger.error(\"Regex timeout\")\n            raise ValueError(\"Regex timeout\") from exc\n\n        if match_result:",
     "            logger.error(\"Regex timeout\")\n            match_result = None\n\n        if match_result:", "detect"),
    ("c17-leftover-macro-check-removed", "C17", "jasm_regex/macro_expander/macro_expander.py",
     "        if rule_macros:\n            raise ValueError", "        if False:\n            raise ValueError", "detect"),
    ("c17-main-catches-everything", "C17", "main.py",
     "    MasterOfPuppets(match_config=match_config).perform_matching()", "    try:\n        MasterOfPuppets(match_config=match_config).perform_matching()\n    except Exception as exc:  # pylint: disable=broad-except\n        logger.error(\"Error: %s\", exc)", "detect"),
    ("c17-negative-times-accepted-again", "C17", "jasm_regex/tree_generators/pattern_node_builder.py",
     "                    if times < 0:", "                    if False:", "detect"),
    ("c17-sibling-times-type-unchecked-again", "C17", "jasm_regex/tree_generators/pattern_node_builder.py",
     "                if times is not None and not isinstance(times, (int, dict)):", "                if False:", "detect"),
    # ------------------------------------------------------------------ C15
    ("c15-D-for-d", "C15", "stringify_asm/implementations/gnu_objdump/gnu_objdump_disassembler.py",
     '        default_flags = ["-d"]', '        default_flags = ["-D"]', "detect"),
    ("c15-only-first-section", "C15", "stringify_asm/implementations/gnu_objdump/gnu_objdump_disassembler.py",
     "        for section in sections:", "        for section in sections[:1]:", "detect"),
    ("c15-sections-comma-joined", "C15", "stringify_asm/implementations/gnu_objdump/gnu_objdump_disassembler.py",
     '        for section in sections:\n            section_flags.extend(["-j", section])', '        section_flags.extend(["-j", ",".join(sections)])', "detect"),
    ("c15-sections-ignored", "C15", "stringify_asm/implementations/gnu_objdump/gnu_objdump_disassembler.py",
     "        if sections:\n            flags.extend", "        if False:\n            flags.extend", "detect"),
    ("c15-att-intel-swapped", "C15", "stringify_asm/implementations/gnu_objdump/gnu_objdump_disassembler.py",
     '                flags.extend(["-M", "att"])', '                flags.extend(["-M", "intel"])', "detect"),
    ("c15-drop-M-att", "C15", "stringify_asm/implementations/gnu_objdump/gnu_objdump_disassembler.py",
     '                flags.extend(["-M", "att"])', "                pass", "silent-ok"),
    ("c15-long-option-spelling", "C15", "stringify_asm/implementations/gnu_objdump/gnu_objdump_disassembler.py",
     '            section_flags.extend(["-j", section])', '            section_flags.append("--section=" + section)', "silent-ok"),
    ("c15-shell-joined-command", "C15", "stringify_asm/implementations/shell_disassembler.py",
     "                [self.program] + self.flags + [input_file],\n", "                \" \".join([self.program] + self.flags + [input_file]),\n                shell=True,\n", "detect"),
    # ------------------------------------------------------------------ C20
    ("c20-all-matches-inverted", "C20", "main.py", "    if args.all_matches:", "    if not args.all_matches:", "detect"),
    ("c20-binary-arg-on-assembly-path", "C20", "main.py", "            input_file = args.assembly", "            input_file = args.binary or args.assembly", "silent-ok"),
    ("c20-macros-not-forwarded", "C20", "main.py", "        macros=args.macros,", "        macros=None,", "detect"),
    ("c20-macros-reversed", "C20", "main.py", "        macros=args.macros,", "        macros=list(reversed(args.macros)) if args.macros else None,", "detect"),
    ("c20-only-address-dropped", "C20", "main.py", "        return_only_address=args.return_only_address,", "        return_only_address=False,", "detect"),
    ("c20-logger-left-at-warning", "C20", "logging_config.py", "    elif info:\n        logger.setLevel(INFO)", "    elif info and debug:\n        logger.setLevel(INFO)", "detect"),
    ("c20-main-catches-and-returns", "C20", "main.py",
     "    MasterOfPuppets(match_config=match_config).perform_matching()", "    try:\n        MasterOfPuppets(match_config=match_config).perform_matching()\n    except Exception as exc:  # pylint: disable=broad-except\n        logger.error(\"Error: %s\", exc)", "detect"),
    # ------------------------------------------------- behaviour-preserving refactorings: no check may alarm
    ("ok-listing-read-via-pathlib", "ALL", "stringify_asm/implementations/null_disassembler.py",
     "        with open(input_file, \"r\", encoding=\"utf-8\") as f:\n            return f.read()",
     "        return __import__('pathlib').Path(input_file).read_text(encoding=\"utf-8\")", "silent-ok"),
    ("ok-rule-read-via-pathlib-safe_load", "ALL", "jasm_regex/yaml2regex.py",
     "        with open(file=file, mode=\"r\", encoding=\"utf-8\") as file_descriptor:\n            return yaml.load(stream=file_descriptor.read(), Loader=yaml.SafeLoader)",
     "        return yaml.safe_load(__import__('pathlib').Path(file).read_bytes().decode(\"utf-8\"))", "silent-ok"),
    ("ok-regex-precompiled", "ALL", "consumer.py",
     "            match_result = regex.search(\n                pattern=self._regex_rule, string=self._all_instructions, timeout=self.timeout_regex\n            )",
     "            match_result = regex.compile(self._regex_rule).search(self._all_instructions, timeout=self.timeout_regex)", "silent-ok"),
    ("ok-log-format-and-stream-changed", "ALL", "logging_config.py",
     "    stream_handler = StreamHandler()\n    stream_handler.setLevel(log_level)\n    formatter = Formatter(\"%(asctime)s - %(name)s - %(levelname)s - %(message)s\")",
     "    stream_handler = StreamHandler(__import__('sys').stdout)\n    stream_handler.setLevel(log_level)\n    formatter = Formatter(\"[%(levelname)s] %(message)s\")", "silent-ok"),
    ("ok-exists-check-via-os-path", "ALL", "stringify_asm/implementations/shell_disassembler.py",
     "            assert Path(input_file).exists(), f\"File '{input_file}' does not exist\"",
     "            if not __import__('os').path.isfile(input_file):\n                raise FileNotFoundError(f\"File '{input_file}' does not exist\")", "silent-ok"),
    ("ok-objdump-via-check_output", "ALL", "stringify_asm/implementations/shell_disassembler.py",
     "            result = subprocess.run(\n                [self.program] + self.flags + [input_file],\n                capture_output=True,\n                text=True,\n                check=True,\n            )\n\n            # Check the command executed correctly\n            if result.returncode == 0:\n                logger.info(\"File binary successfully disassembled\")\n                return result.stdout\n            raise ValueError(f\"Error while disassembling file. Return code error: {result.stderr}\")",
     "            out = subprocess.check_output([self.program] + self.flags + [input_file], stderr=subprocess.PIPE).decode()\n            logger.info(\"File binary successfully disassembled\")\n            return out", "silent-ok"),
    ("c20-only-address-only-with-all", "C20", "main.py", "        return_only_address=args.return_only_address,", "        return_only_address=args.return_only_address and args.all_matches,", "detect"),
]

EXTRA_EDITS = {
    "c14-objdump-flags-class-level": [("stringify_asm/implementations/gnu_objdump/gnu_objdump_disassembler.py",
                                       '    """Disassemble binaries using objdump from shell"""', '    """Disassemble binaries using objdump from shell"""\n\n    _flags: List[str] = []')],
    "c14-addr-list-class-level": [("matched_observers.py", '    """Observer that logs the matched address"""', '    """Observer that logs the matched address"""\n\n    _shared: List[str] = []')],
}


def run_mutant(mid, prop, relfile, old, new, expect, runs=None, keep=False):
    repo = os.environ.get("JASM_VERIF_REPO", "/repo")
    base = tempfile.mkdtemp(prefix="jasm-mut-")
    try:
        shutil.copytree(os.path.join(repo, "src"), os.path.join(base, "src"), ignore=shutil.ignore_patterns("__pycache__"))
        edits = [(relfile, old, new)] + EXTRA_EDITS.get(mid, [])
        for rf, o, n in edits:
            p = os.path.join(base, SRC, rf)
            s = open(p).read()
            if o not in s:
                return {"id": mid, "status": "STALE (text to replace not found)", "ok": False}
            open(p, "w").write(s.replace(o, n, 1))
        env = dict(os.environ, JASM_VERIF_REPO=base)
        if prop == "ALL":
            t0 = time.monotonic()
            exits = {}
            esc = 0
            for pp in ("C14", "C15", "C17", "C20"):
                r = subprocess.run([os.path.join(VERIF, "check"), pp, "--tier", "quick", "--no-evidence", "--budget", "900"] + (["--runs", str(runs)] if runs else []), env=env, capture_output=True, text=True)
                exits[pp] = r.returncode
                esc += r.stderr.count("seam-escape")
                for mm in re.finditer(r"^VIOLATION property=\S+ replay=(\S+)$", r.stdout, re.M):
                    try:
                        os.remove(mm.group(1))
                    except OSError:
                        pass
            return {"id": mid, "prop": prop, "expect": expect, "exits": exits, "seam_escape_warnings": esc, "ok": all(v == 0 for v in exits.values()),
                    "wall": round(time.monotonic() - t0, 1)}
        cmd = [os.path.join(VERIF, "check"), prop, "--tier", "quick", "--no-evidence", "--budget", "900"]
        if expect == "detect":
            cmd.append("--stop-on-violation")  # a planted regression counts as caught at the first violation
        if runs:
            cmd += ["--runs", str(runs)]
        t0 = time.monotonic()
        p = subprocess.run(cmd, env=env, capture_output=True, text=True)
        wall = time.monotonic() - t0
        m = re.search(r"^VIOLATION property=(\S+) replay=(\S+)$", p.stdout, re.M)
        detected = p.returncode == 1 and m is not None
        replay_ok = None
        if detected:
            r = subprocess.run([os.path.join(VERIF, "check"), prop, "--replay", m.group(2)], env=env, capture_output=True, text=True)
            replay_ok = r.returncode == 1 and "VIOLATION property=" in r.stdout
            # and the replay must NOT fire on the unchanged tree
            r0 = subprocess.run([os.path.join(VERIF, "check"), prop, "--replay", m.group(2)], capture_output=True, text=True)
            replay_clean = r0.returncode == 0
            os.remove(m.group(2))
        if expect == "detect":
            ok = detected and bool(replay_ok) and replay_clean
        else:
            ok = p.returncode == 0
        first = ""
        for ln in p.stdout.split("\n"):
            if ln.strip().startswith("detail:"):
                first = ln.strip()[:200]
                break
        return {"id": mid, "prop": prop, "expect": expect, "exit": p.returncode, "detected": detected, "replay_reproduces": replay_ok,
                "replay_clean_on_unchanged": (replay_clean if detected else None), "ok": ok, "wall": round(wall, 1), "detail": first,
                "stderr": p.stderr[-300:] if p.returncode == 2 else ""}
    finally:
        if not keep:
            shutil.rmtree(base, ignore_errors=True)


def main(argv=None):
    ap = argparse.ArgumentParser()
    ap.add_argument("--only")
    ap.add_argument("--prop")
    ap.add_argument("--runs", type=int)
    a = ap.parse_args(argv)
    sel = MUTANTS
    if a.only:
        ids = set(a.only.split(","))
        sel = [m for m in sel if m[0] in ids]
    if a.prop:
        sel = [m for m in sel if m[1] == a.prop]
    bad = 0
    for m in sel:
        r = run_mutant(*m, runs=a.runs)
        print(("ok   " if r["ok"] else "FAIL ") + f"{r['id']:<38} " + " ".join(f"{k}={v}" for k, v in r.items() if k not in ("id", "ok", "stderr")), flush=True)
        if r.get("stderr"):
            print("     stderr: " + r["stderr"].replace("\n", "\n     "))
        bad += 0 if r["ok"] else 1
    print(f"[sensitivity] {len(sel) - bad}/{len(sel)} as expected")
    return 0 if bad == 0 else 2


if __name__ == "__main__":
    sys.exit(main())
