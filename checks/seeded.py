"""Run the registered checks against every kept seeded change (seeded/<id>/patch.diff).

Each patch is applied to a scratch git worktree of the tree under test (outside /repo and
/verif, removed right after); the check named first in meta.json["detected_by"] (or all of
them with --all-checks) must exit 1 with a VIOLATION line, and the minimised replay file must
reproduce there and be clean on the unchanged tree.

usage: /venv/bin/python -m checks.seeded [--only id,...] [--all-checks] [--fast]"""
from __future__ import annotations

import argparse
import json
import os
import re
import subprocess
import sys
import tempfile
import time

VERIF = os.path.dirname(os.path.dirname(os.path.abspath(__file__)))


def run_seed(sid, all_checks=False, fast=False):
    d = os.path.join(VERIF, "seeded", sid)
    meta = json.load(open(os.path.join(d, "meta.json")))
    repo = os.environ.get("JASM_VERIF_REPO", "/repo")
    wt = tempfile.mkdtemp(prefix=f"jasm-seed-{sid}-")
    os.rmdir(wt)
    out = []
    try:
        subprocess.run(["git", "-C", repo, "worktree", "add", "-q", "--detach", wt, "HEAD"], check=True, capture_output=True)
        p = subprocess.run(["git", "-C", wt, "apply", os.path.join(d, "patch.diff")], capture_output=True, text=True)
        if p.returncode != 0:
            return [{"id": sid, "ok": False, "status": "patch does not apply: " + p.stderr[-200:]}]
        env = dict(os.environ, JASM_VERIF_REPO=wt)
        if meta.get("expect_no_alarm"):
            # a behaviour-preserving refactoring: none of the four checks may alarm
            t0 = time.monotonic()
            exits = {}
            esc = 0
            for prop in ("C14", "C15", "C17", "C20"):
                r = subprocess.run([os.path.join(VERIF, "check"), prop, "--tier", "quick", "--no-evidence", "--budget", "900"], env=env, capture_output=True, text=True)
                exits[prop] = r.returncode
                esc += r.stderr.count("seam-escape")
                for mm in re.finditer(r"^VIOLATION property=\S+ replay=(\S+)$", r.stdout, re.M):
                    try:
                        os.remove(mm.group(1))
                    except OSError:
                        pass
            return [{"id": sid, "check": "all four", "exits": exits, "seam_escape_warnings": esc, "ok": all(v == 0 for v in exits.values()), "wall": round(time.monotonic() - t0, 1)}]
        for prop in (meta["detected_by"] if all_checks else meta["detected_by"][:1]):
            t0 = time.monotonic()
            r = subprocess.run([os.path.join(VERIF, "check"), prop, "--tier", "quick", "--no-evidence", "--budget", "900"] + (["--stop-on-violation"] if fast else []),
                               env=env, capture_output=True, text=True)
            m = re.search(r"^VIOLATION property=(\S+) replay=(\S+)$", r.stdout, re.M)
            detected = r.returncode == 1 and m is not None
            rep = clean = None
            if detected:
                rr = subprocess.run([os.path.join(VERIF, "check"), prop, "--replay", m.group(2)], env=env, capture_output=True, text=True)
                rep = rr.returncode == 1
                r0 = subprocess.run([os.path.join(VERIF, "check"), prop, "--replay", m.group(2)], capture_output=True, text=True)
                clean = r0.returncode == 0
                for mm in re.finditer(r"^VIOLATION property=\S+ replay=(\S+)$", r.stdout, re.M):
                    try:
                        os.remove(mm.group(1))
                    except OSError:
                        pass
            sig = re.search(r"signature=(\S+)", r.stdout)
            out.append({"id": sid, "check": prop, "exit": r.returncode, "detected": detected, "replay_reproduces": rep, "replay_clean_on_unchanged": clean,
                        "ok": bool(detected and rep and clean), "wall": round(time.monotonic() - t0, 1), "first_signature": sig.group(1) if sig else None})
    finally:
        subprocess.run(["git", "-C", repo, "worktree", "remove", "--force", wt], capture_output=True)
        subprocess.run(["git", "-C", repo, "worktree", "prune"], capture_output=True)
    return out


def main(argv=None):
    ap = argparse.ArgumentParser()
    ap.add_argument("--only")
    ap.add_argument("--all-checks", action="store_true")
    ap.add_argument("--fast", action="store_true", help="a breaking change counts as detected at the first violation: the rest of the quick tier is not explored")
    a = ap.parse_args(argv)
    ids = sorted((x for x in os.listdir(os.path.join(VERIF, "seeded")) if os.path.isfile(os.path.join(VERIF, "seeded", x, "meta.json"))),
                 key=lambda x: (x.startswith("ok-"), {"ok-s": 0, "ok-q": 1, "ok-p": 2, "ok-r": 3}.get(x[:4], 0), x))
    if a.only:
        ids = [i for i in ids if i in set(a.only.split(","))]
    bad = 0
    n = 0
    for sid in ids:
        for r in run_seed(sid, a.all_checks, a.fast):
            n += 1
            print(("ok   " if r["ok"] else "FAIL ") + " ".join(f"{k}={v}" for k, v in r.items() if k != "ok"), flush=True)
            bad += 0 if r["ok"] else 1
    print(f"[seeded] {n - bad}/{n} as expected (breaking changes detected with a reproducing replay; refactorings without alarm)")
    return 0 if bad == 0 else 2


if __name__ == "__main__":
    sys.exit(main())
