"""C14 - results depend only on the current inputs, never on earlier runs in the process.

One simulated process executes a seeded *history* of complete library
operations (some failing part-way, files rewritten in between) against a
mutable world; after the run every operation's outcome is compared with the
same operation (same file contents, same fault plan) performed first in a
pristine forked process."""
from __future__ import annotations

import copy
import random

from sim import gen, rules, util

PROP = "C14"
LEVEL = "exploration"
EXHAUSTIVE = False
TIERS = {
    "quick": {"runs": 320, "budget_s": 200, "chunk": 2, "max_shrink": 3, "shrink_each_s": 20, "shrink_budget_s": 60},
    "thorough": {"runs": 14000, "budget_s": 3300, "chunk": 4, "max_shrink": 6, "shrink_each_s": 40, "shrink_budget_s": 300},
}
HIST_PER_WORLD = {"quick": 10, "thorough": 12}
CHILD_TIMEOUT = {"quick": 40, "thorough": 90}
RULE = ("one evaluation = one checked operation inside a history (its outcome compared with the same operation run first in a pristine "
        "process); distinct = distinct (process-global config signature left by the preceding operations, feature class of the operation) "
        "pairs; non-trivial = the operation ran after at least one other operation that left a different config signature or failed part-way")
REAL = ["JASM (whole package)", "PyYAML", "regex engine", "objdump + subprocess.run", "GNU as", "filesystem (private tmpfs dir; files really rewritten between operations)"]
STUB = ["injected environment faults inside some operations (failing peer, errno at open, regex deadline)", "reference = same code in a pristine forked process (not an independent model)"]
ASSUMPTIONS = [
    "only complete operations are sequenced (construct MasterOfPuppets then perform_matching, nothing in between); no caller threads",
    "exceptions are compared by class name, return values exactly",
    "a pristine forked process equals a fresh interpreter after `import jasm` (checked by ./check selftest)",
]

JUMPS = rules.JUMPS


# ============================================================ world building
def _two_section_object(rng):
    for _ in range(6):
        secs = [".text"] + rng.sample([".mycode", ".init", ".plt", ".fini", ".plt.got"], rng.randrange(1, 3))
        if rng.random() < 0.4:
            secs.append(rng.choice([".data", ".rodata"]))
        rng.shuffle(secs)
        src, meta = gen.gen_asm_source(rng, sections=secs, random_bytes_p=0.1)
        elf = gen.assemble(src)
        if elf is not None:
            return elf, meta
    return None, None


def _window_items(rng, dec, n, substr=True, with_ops_p=0.6):
    usable = [i for i, (_a, mn, _o) in enumerate(dec) if mn is not None]
    starts = [i for i in usable if all((i + k) < len(dec) and dec[i + k][1] is not None for k in range(n))]
    if not starts:
        return None
    s = rng.choice(starts)
    items = []
    for (_a, mn, ops) in dec[s:s + n]:
        it = gen.instr_item(rng, mn, ops, substr_ok=substr, with_ops_p=with_ops_p)
        if it is None:
            return None
        items.append(it)
    return items


def make_world(rng):
    """files, rule pool, inputs, macro docs."""
    files = {}
    targets = sorted({rng.randrange(0x1000, 0x6000) for _ in range(5)} | {0x10, 0x4040})
    # where a user keeps things: sub-directories, spaces, non-ASCII (the suffixes .s/.o are kept: the
    # harness tells listings from objects by them)
    d_in = rng.choice(["", "", "inputs/sub dir/", "d\u00e9p\u00f4t/", "~/", "$HOME/in/", "very/" * 45 + "deep/", "a=b,c/"])
    d_rules = rng.choice(["", "my rules/", "r/u/l/", "~/rules/", "$HOME/", "@rules/"])
    d_mac = rng.choice(["", "", "mac ros/", "~/", "@m/"])
    # (a side generator: the worlds that do not get one of these names stay what they were)
    rng_n = random.Random(int(util.digest(list(rng.getstate()[1][:16]))[:16], 16))
    r_n = rng_n.random()
    if r_n < 0.06:
        d_mac = "m,x/"  # a comma in the path of every macro library
    elif r_n < 0.12:
        d_in = "de\u0301po\u0302t/"  # decomposed Unicode (as unpacked from an archive made on macOS): not the NFC spelling
    elif r_n < 0.16:
        d_rules = "re\u0300gles \u212b/"  # decomposed + a character whose canonical form is another code point
    listings = []
    for i in range(rng.randrange(2, 4)):
        text, _ins = gen.gen_listing(rng, n=rng.randrange(10, 40), branch_targets=targets)
        files[f"{d_in}a{i}.s"] = text
        listings.append(f"{d_in}a{i}.s")
    if rng.random() < 0.4:
        # a listing without a single instruction: headers only / nothing at all
        nm = f"{d_in}a_empty.s"
        files[nm] = rng.choice(["", "\n", "\nempty.o:     file format elf64-x86-64\n\n"])
        listings.append(nm)
    if rng.random() < 0.3:
        listings.append("/dev/null")  # not a regular file, perfectly readable: an empty listing
    if rng.random() < 0.5:
        text, _blk = gen.gen_listing_repeated(rng)
        files[f"{d_in}a_rep.s"] = text
        listings.append(f"{d_in}a_rep.s")
    binaries = []
    binmeta = {}
    for j in range(rng.choice((1, 2, 2))):
        elf, meta = _two_section_object(rng)
        if elf is None:
            continue
        files[f"{d_in}b{j}.o"] = elf
        binaries.append(f"{d_in}b{j}.o")
        binmeta[f"{d_in}b{j}.o"] = meta
    # the same contents under names that say nothing (or the wrong thing) about their type
    if listings and rng.random() < 0.5:
        nm = rng.choice([d_in + "dump.o", d_in + "50%_listing.txt", d_in + "UPPER.ASM", d_in + "l;st$ing.s", "-", "-"])  # "-" is a file name like any other
        files[nm] = files[listings[0]]
        listings.append(nm)
    if binaries and rng.random() < 0.5:
        nm = d_in + rng.choice(["obj.s", "obj.S", "code.asm", "100%.bin", "x[1]?.o"])
        files[nm] = files[binaries[0]]
        binaries.append(nm)
        binmeta[nm] = binmeta[binaries[0]]
    # the same base name in two directories
    if len(binaries) >= 1 and rng.random() < 0.6:
        other = _two_section_object(rng)[0]
        if other is not None:
            files["debug/prog.o"] = files[binaries[0]]
            files["release/prog.o"] = other
            for nm in ("debug/prog.o", "release/prog.o"):
                binaries.append(nm)
                binmeta[nm] = binmeta[binaries[0]]
    pool = []

    def add(family, variant, doc, pref, typ="assembly", macros=None, raw=None, stage=None):
        rel = f"{d_rules}r_{family}_{len(pool)}.yaml"
        files[rel] = raw if raw is not None else gen.dump_yaml(doc)
        pool.append({"rel": rel, "family": family, "variant": variant, "pref": pref, "type": typ, "macros": macros, "stage": stage})

    # ---- flags family: substring names, verdict depends on the two flags
    for li in listings:
        dec = gen.decode_listing(files.get(li, ""))
        items = _window_items(rng, dec, rng.randrange(2, 5), substr=True)
        if not items:
            continue
        for variant, cfg in (("absent", None), ("unknown_keys", {"strict": True, "cache": True, "ignore-case": True, "timeout": 5, "verbose": True}),
                             ("unknown_keys_off", {"strict": False, "cache": False, "ignore-case": False}), ("plugins_list", {"plugins": ["strip_nops", "tag_calls"]}), ("plugins_map", {"plugins": {"strip_nops": True}, "mnemonics-full-match": True}),
                             ("ff", {"mnemonics-full-match": False, "operands-full-match": False}),
                             ("tf", {"mnemonics-full-match": True}), ("ft", {"operands-full-match": True}),
                             ("tt", {"mnemonics-full-match": True, "operands-full-match": True})):
            d = {"pattern": copy.deepcopy(items)}
            if cfg is not None:
                d = {"config": cfg, **d}
            add("flags", variant, d, li)
        # the same names written in full: found under every flag setting
        full = _window_items(rng, dec, rng.randrange(2, 4), substr=False)
        if full:
            add("flags", "full-tt", {"config": {"mnemonics-full-match": True, "operands-full-match": True}, "pattern": full}, li)

    # ---- range family
    for li in listings:
        dec = gen.decode_listing(files.get(li, ""))
        br = [(a, mn, ops) for (a, mn, ops) in dec if mn in JUMPS and ops and rules._is_hexstr(ops[0])]
        if not br:
            continue
        tvals = sorted({int(ops[0], 16) for (_a, _m, ops) in br})
        mn = rng.choice(br)[1]
        pat = [{mn: ["valid_addr"]}]
        if rng.random() < 0.5:
            pat = [{"$or": [{m: ["valid_addr"]} for m in sorted({b[1] for b in br})]}]
        ranges = [None, {"min": "0x0", "max": "0xffffff"}]
        t = rng.choice(tvals)
        ranges.append({"min": "0x%x" % t, "max": "0x%x" % t})
        if len(tvals) > 1:
            mid = tvals[len(tvals) // 2]
            ranges.append({"min": "0x0", "max": "0x%x" % (mid - 1)})
            ranges.append({"min": "0x%x" % mid, "max": "0xffffff"})
        for ri, r in enumerate(ranges):
            d = {"pattern": copy.deepcopy(pat)}
            if r is not None:
                d = {"config": {"valid_addr_range": r}, **d}
            add("range", f"r{ri}" if r else "absent", d, li)
        # a rule that names the raw target: only matches while nothing rewrites the operand
        add("range", "rawtarget", {"pattern": [{mn: ["%x" % int(br[0][2][0], 16)]}]}, li)
        # branch mnemonics that are NOT in the product's jump list (ja/jb/js ...): tagging must not happen for them,
        # whatever range is configured, before or after other rules said `valid_addr` about them
        other = [(a, m, ops) for (a, m, ops) in dec if m in ("ja", "jb", "js", "jae", "jbe") and ops and rules._is_hexstr(ops[0])]
        if other:
            (_a, om, oops) = rng.choice(other)
            allr = {"valid_addr_range": {"min": "0x0", "max": "0xffffff"}}
            add("range", "unlisted_valid_addr", {"config": allr, "pattern": [{om: ["valid_addr"]}]}, li)
            add("range", "unlisted_rawtarget_with_range", {"config": allr, "pattern": [{om: ["%x" % int(oops[0], 16)]}]}, li)
            add("range", "unlisted_rawtarget", {"pattern": [{om: ["%x" % int(oops[0], 16)]}]}, li)

    # ---- sections / style families (binary route)
    for b in binaries:
        meta = binmeta[b]
        code = [m["name"] for m in meta if not m["data"]]
        allsec = [m["name"] for m in meta]
        rc, text = gen.objdump_of(gen.util.dec_content(files[b]))
        dec = gen.decode_listing(text) if rc == 0 else []
        for sec in code:
            rc2, t2 = gen.objdump_of(gen.util.dec_content(files[b]), [sec])
            if rc2 != 0:
                continue
            d2 = gen.decode_listing(t2)
            items = _window_items(rng, d2, min(3, max(1, len([x for x in d2 if x[1]]))), substr=True) or ["nop"]
            variants = [("absent", None), ("own", [sec])]
            others = [s for s in allsec if s != sec]
            if others:
                variants.append(("other", [rng.choice(others)]))
                variants.append(("both", [sec, rng.choice(others)]))
                variants.append(("both_rev", [rng.choice(others), sec]))
            variants.append(("empty", []))
            variants.append(("nonexistent", [".nope"]))
            for vname, sl in variants:
                d = {"pattern": copy.deepcopy(items)}
                if sl is not None:
                    d = {"config": {"sections": sl}, **d}
                add("sections", vname, d, b, typ="binary")
        regitems = None
        for _ in range(8):
            it = _window_items(rng, dec, 2, substr=False, with_ops_p=1.0)
            if it and any(isinstance(x, dict) for x in it):
                regitems = it
                break
        if regitems:
            for vname, st in (("absent", None), ("att", "att"), ("intel", "intel"), ("bogus", "masm")):
                d = {"pattern": copy.deepcopy(regitems)}
                if st is not None:
                    d = {"config": {"style": st}, **d}
                add("style", vname, d, b, typ="binary")

    # ---- capture family
    for li in listings[:2]:
        dec = gen.decode_listing(files.get(li, ""))
        w = [(a, mn, ops) for (a, mn, ops) in dec if mn and ops and len(ops) >= 1 and gen._SAFE.match(mn)]
        if len(w) < 2:
            continue
        i = rng.randrange(len(w) - 1)
        (_a1, m1, o1), (_a2, m2, o2) = w[i], w[i + 1]
        for vname, (c1, c2) in (("ab", ("&a", "&b")), ("ba", ("&b", "&a")), ("genreg", ("&genreg-1", "&c9"))):
            add("capture", vname, {"pattern": [{m1: [c1]}, {"$not": ["fxsave"]}, {m2: [c2]}]}, li)
        add("capture", "backref", {"pattern": [{m1: ["&a"]}, {m1: ["&a"]}]}, li)
        add("capture", "instr", {"pattern": ["&i1", "&i2", "&i1"]}, li)

    # ---- macro family
    macro_docs = {}
    if listings:
        li = listings[0]
        dec = gen.decode_listing(files.get(li, ""))
        items = _window_items(rng, dec, 3, substr=True, with_ops_p=0.3)
        if items:
            body_ok = items[1]
            body_bad = rng.choice(rules.DECOY_MN)
            def mdoc(body, extra=None):
                ms = [{"name": "@mm", "pattern": body if isinstance(body, str) else [body]}]
                if extra:
                    ms += extra
                return {"macros": ms}
            macro_docs[d_mac + "m_ok.yaml"] = mdoc(body_ok, [{"name": "@unused", "pattern": "nop"}])
            macro_docs[d_mac + "m_bad.yaml"] = mdoc(body_bad)
            macro_docs[d_mac + "m_args.yaml"] = {"macros": [{"name": "@pm", "args": ["marg1"], "pattern": [{"$or": [{"mov": ["marg1"]}, {"push": ["marg1"]}, {"pop": ["marg1"]}]}]}]}
            for rel, d in macro_docs.items():
                files[rel] = gen.dump_yaml(d)
            pat = [items[0], "@mm", items[2]]
            add("macro", "cli_ok", {"pattern": copy.deepcopy(pat)}, li, macros=[d_mac + "m_ok.yaml"])
            add("macro", "cli_bad", {"pattern": copy.deepcopy(pat)}, li, macros=[d_mac + "m_bad.yaml"])
            add("macro", "cli_ok_bad", {"pattern": copy.deepcopy(pat)}, li, macros=[d_mac + "m_ok.yaml", d_mac + "m_bad.yaml"])
            add("macro", "cli_bad_ok", {"pattern": copy.deepcopy(pat)}, li, macros=[d_mac + "m_bad.yaml", d_mac + "m_ok.yaml"])
            add("macro", "infile_ok", {"macros": macro_docs[d_mac + "m_ok.yaml"]["macros"], "pattern": copy.deepcopy(pat)}, li)
            add("macro", "infile_bad", {"macros": macro_docs[d_mac + "m_bad.yaml"]["macros"], "pattern": copy.deepcopy(pat)}, li)
            add("macro", "args_rax_rbx", {"pattern": [{"@pm": None, "marg1": "rax"}, {"$not": ["fxsave"]}, {"@pm": None, "marg1": "rbx"}]}, li, macros=[d_mac + "m_args.yaml"])
            add("macro", "args_rbx_rax", {"pattern": [{"@pm": None, "marg1": "rbx"}, {"$not": ["fxsave"]}, {"@pm": None, "marg1": "rax"}]}, li, macros=[d_mac + "m_args.yaml"])
            add("macro", "nomacro_same_pattern", {"pattern": [items[0], body_ok, items[2]]}, li)
            # two libraries with the same file name in different directories
            files["libA/lib.yaml"] = files[d_mac + "m_ok.yaml"]
            files["libB/lib.yaml"] = files[d_mac + "m_bad.yaml"]
            macro_docs["libA/lib.yaml"] = macro_docs[d_mac + "m_ok.yaml"]
            macro_docs["libB/lib.yaml"] = macro_docs[d_mac + "m_bad.yaml"]
            add("macro", "samebase_A", {"pattern": copy.deepcopy(pat)}, li, macros=["libA/lib.yaml"])
            add("macro", "samebase_B", {"pattern": copy.deepcopy(pat)}, li, macros=["libB/lib.yaml"])
            add("macro", "samebase_AB", {"pattern": copy.deepcopy(pat)}, li, macros=["libA/lib.yaml", "libB/lib.yaml"])
            add("macro", "samebase_BA", {"pattern": copy.deepcopy(pat)}, li, macros=["libB/lib.yaml", "libA/lib.yaml"])
            # layered: a library macro whose body refers to a macro every rule defines for itself
            macro_docs[d_mac + "m_layer.yaml"] = {"macros": [{"name": "@outer", "pattern": [{"$or": ["@inner", rng.choice(rules.DECOY_MN)]}]},
                                                     {"name": "@outer2", "pattern": [{"$and": [items[0], "@inner"]}]}]}
            files[d_mac + "m_layer.yaml"] = gen.dump_yaml(macro_docs[d_mac + "m_layer.yaml"])
            def inner(body):
                return {"name": "@inner", "pattern": body if isinstance(body, str) else [body]}
            alt = _window_items(rng, dec, 1, substr=True, with_ops_p=0.0)
            for vname, body in (("layer_ok", body_ok), ("layer_bad", body_bad), ("layer_alt", (alt or [body_bad])[0])):
                add("macro", vname, {"macros": [inner(body)], "pattern": [items[0], "@outer", items[2]]}, li, macros=[d_mac + "m_layer.yaml"])
                add("macro", vname + "2", {"macros": [inner(body)], "pattern": ["@outer2", items[2]]}, li, macros=[d_mac + "m_layer.yaml"])
            # a caller that passes all its libraries to every rule: each rule needs only one of them
            all_libs = [d_mac + "m_ok.yaml", d_mac + "m_args.yaml"]
            add("macro", "alllibs_mm", {"pattern": copy.deepcopy(pat)}, li, macros=list(all_libs))
            add("macro", "alllibs_pm", {"pattern": [{"@pm": None, "marg1": "rax"}, {"$not": ["fxsave"]}, {"@pm": None, "marg1": "rbx"}]}, li, macros=list(all_libs))

    # ---- files with the same names beside the rules: what a lookup relative to the rule's directory
    #      (instead of the working directory) would pick up
    if d_rules:
        mnames = sorted(macro_docs)
        for i, mf in enumerate(mnames):
            other = mnames[(i + 1) % len(mnames)] if len(mnames) > 1 else None
            files[d_rules + mf] = files[other] if other else gen.dump_yaml({"macros": [{"name": "@mm", "pattern": "fxsave"}]})
        real = [x for x in listings if x in files]
        for i, li in enumerate(real):
            files[d_rules + li] = files[real[(i + 1) % len(real)]] if len(real) > 1 else "\n"

    # ---- rule features with tables/registries of their own: $and_any_order of several sizes, times variants, $deref with captures
    if listings:
        li = rng.choice(listings)
        dec = gen.decode_listing(files.get(li, ""))
        for size in (2, 3, 4):
            its = _window_items(rng, dec, size, substr=True, with_ops_p=0.3)
            if its:
                sh = list(its)
                rng.shuffle(sh)
                add("anyorder", f"n{size}", {"pattern": [{"$and_any_order": sh}]}, li)
                add("anyorder", f"n{size}_times", {"pattern": [{"$and_any_order": sh, "times": {"min": 1, "max": 2}}]}, li)
        its = _window_items(rng, dec, 2, substr=True, with_ops_p=0.0)
        if its and all(isinstance(x, str) for x in its):
            for vname, t in (("none", None), ("two", 2), ("range", {"min": 1, "max": 3}), ("opt", {"min": 0, "max": 1})):
                first = its[0] if t is None else {its[0]: {"times": t}}
                add("times", vname, {"pattern": [first, its[1]]}, li)
        mem = [(a, mn, ops) for (a, mn, ops) in dec if mn and gen._SAFE.match(mn) and any(gen._MEM.match(o) and gen._MEM.match(o).group(2) and not o.startswith("-") for o in ops)]
        if mem:
            (_a, mn, ops) = rng.choice(mem)
            pats = []
            for o in ops:
                pp = gen.operand_pattern(rng, o, substr_ok=False)
                if pp is None:
                    break
                pats.append(pp)
            if pats and any(isinstance(x, dict) for x in pats):
                add("deref", "plain", {"pattern": [{mn: copy.deepcopy(pats)}]}, li)
                cap = copy.deepcopy(pats)
                for x in cap:
                    if isinstance(x, dict):
                        x["$deref"]["main_reg"] = "&dreg"
                add("deref", "captured_reg", {"pattern": [{mn: cap}]}, li)
                orr = copy.deepcopy(pats)
                for x in orr:
                    if isinstance(x, dict):
                        x["$deref"]["main_reg"] = [{"$or": [x["$deref"]["main_reg"], "%xmm7"]}]
                add("deref", "or_in_field", {"pattern": [{mn: orr}]}, li)

    # ---- rules whose texts are near twins under weak checksums (same bytes permuted; Adler-32 collisions of the
    #      +1,-1,-1,+1 kind): anything that identifies a rule by a cheap hash mixes them up
    if listings:
        li = rng.choice([x for x in listings if x in files] or listings)
        files[li] = files.get(li, "") + "  7f1000:\t48 c7 c0 12 21 00 00 \tmov    $0x2112,%rax\n  7f1007:\t48 c7 c3 21 12 00 00 \tmov    $0x1234,%rbx\n" if li in files else ""
        for vname, opnd in (("a", "0x1221"), ("b", "0x2112"), ("c", "0x1234"), ("d", "0x4321"), ("e", "0x2143")):
            add("hashsibling", vname, {"pattern": [{"mov": [opnd]}]}, li)

    # ---- names that are regular-expression text (what the DSL passes through to the engine), incl. constructs
    #      whose meaning depends on engine-level settings
    if listings:
        li = rng.choice(listings)
        for vname, pat in (("set_with_bracket", [{"mov": ["[[]%r[a-z0-9]+"]}]), ("alt_group", ["(?:push|pop)"]), ("class", ["mo[v]", {"r[e]t": {"times": {"min": 0, "max": 1}}}]),
                           ("set_ops_text", [{"mov": ["[%a-z0-9--q]+"]}]), ("anchors", [{"push": ["%r[^,|]{2}"]}])):
            add("regexsyntax", vname, {"pattern": pat}, li)
        # very deep nesting (a rule generator could produce it): close to the interpreter's recursion limit
        deep = "mov"
        for _ in range(rng.choice([60, 110, 150])):
            deep = {"$or": [deep]}
        add("deep", "plain_or", {"pattern": [deep]}, li)
        body = "push"
        for _ in range(40):
            body = {"$and": [body]}
        add("deep", "macro_body", {"macros": [{"name": "@deep", "pattern": [body]}], "pattern": ["@deep"]}, li)

    # ---- matches that are empty, and matches that are very long (several kB of text in one element)
    if listings:
        li = rng.choice(listings)
        for vname, pat in (("opt_only", [{"nop": {"times": {"min": 0, "max": 2}}}]), ("zero_times", [{"fxsave": {"times": 0}}]),
                           ("opt_group", [{"$or": ["fxsave", "vpxor"], "times": {"min": 0, "max": 1}}]),
                           ("opt_then_real", [{"fxsave": {"times": {"min": 0, "max": 1}}}, "mov"])):
            add("emptymatch", vname, {"pattern": pat}, li)
    if rng.random() < 0.5:
        reg = "%" + rng.choice(gen.REG64)
        n_run = rng.choice([rng.randrange(280, 420), rng.randrange(1000, 1300)])
        long_instrs = [gen.gen_instruction(rng, addr_pool=targets) for _ in range(3)] + [("push", [reg])] * n_run + [("ret", [])]
        text, _e = gen.render_listing(rng, long_instrs, base=0x10000)
        nm = f"{d_in}a_long.s"
        files[nm] = text
        listings.append(nm)
        add("longmatch", "run", {"pattern": [{"push": {"times": {"min": 100, "max": 500}}}]}, nm)
        add("longmatch", "run_ret", {"pattern": [{"push": [reg], "times": {"min": 50, "max": 450}}, "ret"]}, nm)
        add("longmatch", "halves", {"pattern": [{"push": {"times": n_run // 2}}]}, nm)
        add("longmatch", "each", {"pattern": ["push"]}, nm)  # hundreds of matches in all-matches mode

    # ---- scalars whose meaning depends on YAML's implicit typing (unquoted hex / binary / octal ints, yes/no booleans)
    if listings:
        li = rng.choice(listings)
        for vname, raw in (("hex_operand", "pattern:\n- mov:\n  - 0x10\n"), ("hex_operand2", "pattern:\n- $or:\n  - add:\n    - 0x8\n  - sub:\n    - 0x16\n"),
                           ("yes_flag", "config:\n  mnemonics-full-match: yes\n  operands-full-match: no\npattern:\n- mo\n"),
                           ("bin_times", "pattern:\n- push:\n    times: 0b10\n"), ("oct_times", "pattern:\n- call:\n    times: 02\n"),
                           ("underscore_int", "pattern:\n- mov:\n  - 1_6\n"), ("null_plugins", "config:\n  plugins: ~\npattern:\n- ret\n")):
            add("yamltypes", vname, None, li, raw=raw)

    # ---- plain rules built with the full feature mix
    for li in listings:
        dec = gen.decode_listing(files.get(li, ""))
        for _ in range(2):
            b = rules.build_found_rule(rng, dec, features={f for f in rules.FEATURES if rng.random() < 0.4} - {"macro_files"})
            if b:
                add("plain", "mix", b[0], li)

    # ---- rules that fail at each stage a real operation can stop at (with config keys set, to leave a partial update behind)
    heavy = {"mnemonics-full-match": True, "operands-full-match": True, "style": "intel",
             "valid_addr_range": {"min": "0x0", "max": "0xffffff"}, "sections": [".nope"]}
    li = listings[0] if listings else None
    add("broken", "malformed_yaml", None, li, raw="config: {style: intel\npattern: [\n", stage="parse")
    add("broken", "flag_not_bool", {"config": {**heavy, "mnemonics-full-match": "yes"}, "pattern": ["mov"]}, li, stage="config:flags")
    add("broken", "range_badhex", {"config": {**heavy, "valid_addr_range": {"min": "zz", "max": "0x10"}}, "pattern": ["mov"]}, li, stage="config:range")
    add("broken", "sections_bad", {"config": {**heavy, "sections": ".text"}, "pattern": ["mov"]}, li, stage="config:sections")
    add("broken", "not_arity", {"config": heavy, "pattern": [{"$not": ["mov", "push"]}]}, li, stage="compile")
    add("broken", "empty_group", {"config": heavy, "pattern": [{"$or": []}]}, li, stage="compile")
    add("broken", "bad_times", {"config": heavy, "pattern": [{"mov": {"times": {"min": 3, "max": 1}}}]}, li, stage="compile")
    add("broken", "undefined_macro", {"config": heavy, "macros": [{"name": "@x", "pattern": "mov"}], "pattern": ["@x", "@undefined"]}, li, stage="compile")
    add("broken", "bad_regex", {"config": {k: v for k, v in heavy.items() if k != "sections"}, "pattern": ["mov(", {"&cz": None}] if False else ["mov("]}, li, stage="match")
    add("broken", "capture_then_fail", {"config": heavy, "pattern": [{"mov": ["&a", "&b"]}, {"$or": []}]}, li, stage="compile")
    # ---- a very large listing (more than 100 000 lines): only used by the two or three operations that make_history
    # places on purpose, never by the families above (an operation on it costs a second or two).
    # (a side generator, so that every other choice of the world stays what it was before this dimension existed)
    rng_h = random.Random(int(util.digest(list(rng.getstate()[1][:16]))[:16], 16))
    if rng_h.random() < 0.015:
        block = [gen.gen_instruction(rng_h, addr_pool=targets) for _ in range(400)]
        block = [b for b in block if b[0] not in ("hlt", "fxsave")]
        text, _e = gen.render_listing(rng_h, block * rng_h.randrange(190, 230) + [("hlt", []), ("ret", [])], base=0x100000)
        files[f"{d_in}a_huge.s"] = text
        files[f"{d_rules}r_huge_tail.yaml"] = gen.dump_yaml({"pattern": ["hlt", "ret"]})
        files[f"{d_rules}r_huge_none.yaml"] = gen.dump_yaml({"pattern": ["fxsave"]})
    return files, pool, listings, binaries, sorted(macro_docs)


# ================================================================= histories
MODES = [("bool", "first", False), ("bool", "all", False), ("list", "first", False), ("list", "all", False),
         ("list", "first", True), ("list", "all", True), ("stream", "first", False), ("stream", "all", True),
         ("bool", "all", True), ("bool", "first", True), ("stream", "all", False), ("stream", "first", True),
         ("list", "all", False), ("list", "all", True)]


def _match_op(rng, entry, inputs_asm, inputs_bin, mode=None, input_override=None):
    ret, search, only = mode or rng.choice(MODES)
    typ = entry["type"]
    if input_override:
        inp = input_override
        typ = "binary" if inp in inputs_bin else "assembly"
    elif rng.random() < 0.8 and entry["pref"]:
        inp = entry["pref"]
    else:
        inp = rng.choice(inputs_asm + inputs_bin)
        typ = "binary" if inp in inputs_bin else "assembly"
    if rng.random() < 0.03:
        # the wrong route for this file: a listing given as binary, an object given as listing (both must fail, consistently)
        typ = "assembly" if typ == "binary" else "binary"
    op = {"op": "match", "rule": entry["rel"], "input": inp, "type": typ, "ret": ret, "search": search, "only_addr": only,
          "macros": list(entry["macros"]) if entry.get("macros") else None,
          "_tag": f"{entry['family']}:{entry['variant']}:{typ}:{ret}/{search}{'/addr' if only else ''}"}
    if rng.random() < 0.3:
        op["gap"] = rng.choice([0.2, 2, 30, 58, 59, 59.5, 61, 120, 3600])  # simulated seconds that pass before this operation
    if rng.random() < 0.5:
        op["hold_object"] = True  # the caller keeps the MasterOfPuppets object in a variable until the next one replaces it
    return op


E_FAULTS = [
    ("input_missing", lambda op: {"kind": "remove", "target": op["input"], "label": "enoent:input"}),
    ("input_isdir", lambda op: {"kind": "mkdir_in_place", "target": op["input"], "label": "eisdir:input"}),
    ("rule_isdir", lambda op: {"kind": "mkdir_in_place", "target": op["rule"], "label": "eisdir:rule"}),
    ("input_emfile", lambda op: {"kind": "emfile", "target": op["input"], "label": "emfile:input"}),
    ("rule_missing", lambda op: {"kind": "remove", "target": op["rule"], "label": "enoent:rule"}),
    ("rule_eacces", lambda op: {"kind": "eacces", "target": op["rule"], "label": "eacces:rule"}),
    ("input_eio", lambda op: {"kind": "eio_read", "target": op["input"], "label": "eio_read:input"}),
    ("regex_timeout", lambda op: {"kind": "regex_timeout", "duration": 100, "after": 0, "label": "regex_timeout"}),
    ("objdump_rc1", lambda op: {"kind": "rc", "code": 1, "stdout": "none", "label": "rc1:objdump"}),
    ("objdump_killed", lambda op: {"kind": "killed", "stdout": "torn", "tear": 0.5, "label": "killed:objdump"}),
    ("objdump_absent", lambda op: {"kind": "prog_absent", "label": "prog_absent:objdump"}),
    ("macro_missing", None),
]


def make_history(rng, world, with_faults):
    files, pool, listings, binaries, macro_files = world
    fams = sorted({e["family"] for e in pool if e["family"] != "broken"})
    byfam = {f: [e for e in pool if e["family"] == f] for f in fams}
    broken = [e for e in pool if e["family"] == "broken"]
    n = rng.randrange(2, 15) if rng.random() < 0.93 else rng.randrange(30, 45)
    focus = rng.choice(fams)
    if rng.random() < 0.04:
        # many DIFFERENT rules once each, then the first ones again: bounded tables and their eviction order
        distinct = [e for e in pool if e["family"] != "broken"]
        rng.shuffle(distinct)
        first = distinct[:rng.randrange(20, 48)]
        mode_all = rng.choice(MODES)
        seq = [_match_op(rng, e, listings, binaries, mode=mode_all) for e in first]
        again = [copy.deepcopy(o) for o in seq[:rng.randrange(3, 8)]]
        for o in again:
            o.pop("hold_object", None)
        return seq + again
    if broken and rng.random() < 0.06:
        # an error storm: many rejected rules in a row, then ordinary operations (state that rejected
        # operations leave behind may only add up to something visible after many of them)
        kind = rng.choice(broken)
        storm = []
        for _ in range(rng.randrange(10, 26)):
            e = kind if rng.random() < 0.7 else rng.choice(broken)
            op = _match_op(rng, e, listings, binaries)
            op["_tag"] = "broken:" + e["variant"] + ":" + op["type"]
            storm.append(op)
        tail = [_match_op(rng, rng.choice(byfam[focus]), listings, binaries) for _ in range(rng.randrange(2, 5))]
        return storm + tail
    focus_in = rng.choice([e["pref"] for e in byfam[focus]])
    focus_mode = rng.choice(MODES)
    use_writes = rng.random() < 0.6
    use_broken = rng.random() < 0.7
    ops = []
    for _ in range(n):
        r = rng.random()
        if ops and r < 0.12:
            prev = [o for o in ops if o["op"] == "match"]
            if prev:
                if rng.random() < 0.35 and ops[-1]["op"] == "match" and not ops[-1].get("compile_only"):
                    # match again on the object the caller still holds (immediately: nothing else ran in between)
                    ops[-1]["hold_object"] = True
                    again = copy.deepcopy(ops[-1])
                    again.pop("faults", None)  # whatever made the first attempt fail is gone: the caller simply tries again
                    again["rematch"] = True
                    again["_tag"] = "rematch:" + again["_tag"]
                    ops.append(again)
                    continue
                orig = rng.choice(prev[-3:])
                if rng.random() < 0.6 and not orig.get("faults") and not orig.get("compile_only"):
                    orig["reuse_config"] = True  # the caller keeps and re-uses its MatchConfig object
                rep = copy.deepcopy(orig)
                rep.pop("rematch", None)
                ops.append(rep)
                continue
        if use_writes and r < 0.25:
            ops.append(_write_op(rng, files, pool, listings, binaries, macro_files, focus, byfam))
            continue
        if use_broken and r < 0.40:
            e = rng.choice(broken)
            op = _match_op(rng, e, listings, binaries)
            op["_tag"] = "broken:" + e["variant"] + ":" + op["type"]
            ops.append(op)
            continue
        if with_faults and r < 0.52:
            e = rng.choice(byfam[focus] if rng.random() < 0.5 else [x for x in pool if x["family"] != "broken"])
            op = _match_op(rng, e, listings, binaries)
            name, mk = rng.choice(E_FAULTS)
            if name == "macro_missing":
                op["macros"] = (op.get("macros") or []) + ["no_such_macros.yaml"]
            else:
                if name.startswith("objdump") and op["type"] != "binary":
                    name, mk = E_FAULTS[0]
                op["faults"] = [mk(op)]
            op["_tag"] = "fault:" + name + ":" + op["type"]
            ops.append(op)
            continue
        if r < 0.58:
            # compile only: the rule is loaded and compiled (config stored process-wide) but never matched
            e = rng.choice([x for x in pool])
            op = _match_op(rng, e, listings, binaries)
            op["compile_only"] = True
            op["_tag"] = "compile:" + e["family"] + ":" + e["variant"]
            ops.append(op)
            continue
        if r < 0.85:
            e = rng.choice(byfam[focus])
            same_in = focus_in if e["pref"] and ((e["pref"] in binaries) == (focus_in in binaries)) else None
            ops.append(_match_op(rng, e, listings, binaries, mode=focus_mode if rng.random() < 0.7 else None, input_override=same_in if rng.random() < 0.8 else None))
        else:
            e = rng.choice([x for x in pool if x["family"] != "broken"])
            ops.append(_match_op(rng, e, listings, binaries))
    # histories end in a checked successful-looking operation of the focus family
    e = rng.choice(byfam[focus])
    ops.append(_match_op(rng, e, listings, binaries, mode=focus_mode))
    huge = [k for k in files if k.endswith("a_huge.s")]
    if huge:
        rng_h = random.Random(int(util.digest(list(rng.getstate()[1][:16]))[:16], 16))
        if rng_h.random() < 0.4:
            rules_h = sorted(k for k in files if k.endswith(("r_huge_tail.yaml", "r_huge_none.yaml")))
            for _ in range(rng_h.randrange(2, 4)):
                at = rng_h.randrange(0, len(ops) + 1)
                while at < len(ops) and ops[at].get("rematch"):
                    at += 1
                rel = rng_h.choice(rules_h)
                ret, search, only = rng_h.choice(MODES)
                ops.insert(at, {"op": "match", "rule": rel, "input": huge[0], "type": "assembly", "ret": ret, "search": search, "only_addr": only,
                                "macros": None, "_tag": f"huge:{'tail' if 'tail' in rel else 'none'}:assembly:{ret}/{search}"})
    style = rng.random()
    if style < 0.15:
        for o in ops:  # the caller keeps ONE MatchConfig object and updates its fields per operation
            if o["op"] == "match" and not o.get("reuse_config"):
                o["shared_config"] = True
    if rng.random() < 0.3:
        for o in ops:  # the caller passes the very same list object of macro libraries to every operation
            if o["op"] == "match":
                o["shared_macro_list"] = True
    return ops


def _write_op(rng, files, pool, listings, binaries, macro_files, focus, byfam):
    c = rng.random()
    if c < 0.4:
        fam = byfam[focus] if rng.random() < 0.7 else rng.choice(list(byfam.values()))
        a, b = rng.choice(fam), rng.choice(fam)
        return {"op": "write", "path": a["rel"], "content": util.enc_content(files[b["rel"]]), "_tag": f"write:rule:{a['family']}"}
    if c < 0.55 and len(macro_files) >= 2:
        a, b = rng.sample(macro_files, 2)
        return {"op": "write", "path": a, "content": util.enc_content(files[b]), "_tag": "write:macrofile"}
    if c < 0.75 and len(listings) >= 2:
        real = [x for x in listings if x in files]
        if len(real) >= 2:
            a, b = rng.sample(real, 2)
            return {"op": "write", "path": a, "content": util.enc_content(files[b]), "_tag": "write:listing"}
    if len(binaries) >= 2:
        a, b = rng.sample(binaries, 2)
        return {"op": "write", "path": a, "content": util.enc_content(files[b]), "_tag": "write:binary"}
    a, b = rng.choice(pool), rng.choice(pool)
    return {"op": "write", "path": a["rel"], "content": util.enc_content(files[b["rel"]]), "_tag": "write:rule:any"}


# ==================================================================== oracle
def _cmp_outcome(oc):
    return oc[:2] if oc[0] == "exc" else oc


NOFILE_HEADROOM = 24  # descriptors a history (and each reference) may have open beyond what the interpreter already holds


def check_history(files, ops, runner, seed=0, want_events=False, log_level=None):
    """Run the history in one process, then compare every operation with its pristine reference.

    Returns (violations, info)."""
    runner.reset(files) if runner.state else runner.materialise(files)
    res = runner.run(ops, seed, {"signatures": True, "nofile_headroom": NOFILE_HEADROOM, "log_level": log_level})
    # replay the file state for the references
    runner.reset(files)
    viols = []
    checked = 0
    pairs = []
    stages = {}
    prev_tag = "start"
    for k, op in enumerate(ops):
        if op["op"] == "write":
            runner.apply_write(op)
            prev_tag = op.get("_tag", "write")
            continue
        ref_oc, _fired, _ev = runner.reference(op, seed, {"nofile_headroom": NOFILE_HEADROOM})  # a pristine process: default logging
        got = res["outcomes"][k]
        checked += 1
        sig = res["signatures"][k] if res.get("signatures") else "?"
        pairs.append((sig, op.get("_tag", "?").split(":")[0] + ":" + op.get("_tag", "?:?").split(":")[1] if ":" in op.get("_tag", "") else op.get("_tag", "?")))
        if got[0] == "exc":
            stages[op.get("_tag", "?").rsplit(":", 1)[0]] = stages.get(op.get("_tag", "?").rsplit(":", 1)[0], 0) + 1
        if _cmp_outcome(got) != _cmp_outcome(ref_oc):
            viols.append({
                "clause": "outcome-differs-from-pristine-process",
                "index": k,
                "signature": _signature(op, got, ref_oc),
                "detail": f"op #{k} {op.get('_tag')} after {k} earlier op(s) (previous: {prev_tag}) gave {_short(got)} but the same operation "
                          f"first in a fresh process gives {_short(ref_oc)}; config left by predecessors: {sig}",
                "expected": _short(ref_oc), "got": _short(got),
            })
        prev_tag = op.get("_tag", "?")
    fired_labels = {}
    for k, op in enumerate(ops):
        for fi in res["fired"][k]:
            lab = op["faults"][fi]["label"]
            fired_labels[lab] = fired_labels.get(lab, 0) + 1
    info = {"checked": checked, "pairs": pairs, "abort_stage_hits": stages, "vtime": res["vtime"], "escapes": res["escapes"],
            "digest": util.digest(res["events"]), "fired": sum(len(x) for x in res["fired"]), "fired_labels": fired_labels}
    if want_events:
        info["events"] = res["events"]
    return viols, info


def _kind(oc):
    if oc[0] == "exc":
        return "exc"
    v = oc[1]
    if isinstance(v, bool):
        return "bool"
    if isinstance(v, list):
        return "list"
    return "stream"


def _signature(op, got, ref):
    fam = op.get("_tag", "?").split(":")[0]
    return f"history-dependent:{fam}:{op.get('type')}:{op.get('ret')}:{_kind(ref)}->{_kind(got)}"


def _short(oc):
    s = repr(oc[:3])
    return s if len(s) < 300 else s[:300] + "...'"


def run_one(index, seed, runner, tier, opts):
    rng = random.Random(seed)
    world = make_world(rng)
    files = world[0]
    counters = {"histories": 0, "checked_ops": 0, "faults_fired": {}, "abort_stage_hits": {}, "seam_escapes": 0,
                "ref_evaluations": 0, "ref_memo_hits": 0, "history_len": {}, "families": {}}
    distinct = set()
    violations = []
    digests = []
    sample = None
    vtime = 0.0
    warnings = []
    runner.materialise(files)
    nh = HIST_PER_WORLD[tier]
    for h in range(nh):
        with_faults = (h % 2 == 1)
        ops = make_history(rng, world, with_faults)
        # the embedding application may have switched the package logger to DEBUG / INFO: results must not care
        log_level = ("DEBUG" if h % 5 == 3 else "INFO") if h % 5 in (3, 4) else None
        viols, info = check_history(files, ops, runner, seed, log_level=log_level)
        counters["histories"] += 1
        counters["checked_ops"] += info["checked"]
        counters["seam_escapes"] += len(info["escapes"])
        for e in info["escapes"][:2]:
            warnings.append(f"seam-escape run {index}: {e}")
        for st, c in info["abort_stage_hits"].items():
            counters["abort_stage_hits"][st] = counters["abort_stage_hits"].get(st, 0) + c
        for lab, c in info["fired_labels"].items():
            counters["faults_fired"][lab] = counters["faults_fired"].get(lab, 0) + c
        for op in ops:
            fam = op.get("_tag", "?").split(":")[0]
            counters["families"][fam] = counters["families"].get(fam, 0) + 1
        lb = str(min(len(ops), 15))
        counters["history_len"][lb] = counters["history_len"].get(lb, 0) + 1
        for sig, cls in info["pairs"]:
            if sig != "pristine":
                distinct.add(sig + "|" + cls)
        digests.append(info["digest"])
        vtime += info["vtime"]
        for v in viols[:1]:
            k = v["index"]
            # the whole history is kept: what the caller still holds of operation k (a returned list) may have been
            # changed by the operations after it; the shrinker drops whatever is not needed, before and after
            ops_c = copy.deepcopy(ops)
            ops_c[k]["_target"] = True
            case = {"files": {p: util.enc_content(c) for p, c in files.items()}, "ops": ops_c, "extra": {"history": h, "log_level": log_level, "seed": seed}}
            violations.append({"case": case, "violation": v})
        if sample is None and h == 1:
            sample = {"run": index, "seed": seed, "history": [_op_brief(o) for o in ops], "n_rules": len(world[1]), "inputs": world[2] + world[3]}
    counters["ref_evaluations"] = runner.ref_evals
    counters["ref_memo_hits"] = runner.ref_hits
    runner.ref_evals = runner.ref_hits = 0
    return {"evals": counters["checked_ops"], "counters": counters, "distinct": sorted(distinct), "violations": violations,
            "digest": util.digest(digests), "sample": sample, "vtime": vtime, "warnings": warnings}


def _op_brief(o):
    if o["op"] == "write":
        return {"op": "write", "path": o["path"], "tag": o.get("_tag")}
    return {"op": "match", "rule": o["rule"], "input": o["input"], "modes": f"{o['ret']}/{o['search']}", "macros": o.get("macros"),
            "faults": [f["label"] for f in o.get("faults") or []], "tag": o.get("_tag")}


def evaluate(case, runner):
    runner.state = {}
    ex_ = case.get("extra") or {}
    viols, _info = check_history(case["files"], case["ops"], runner, seed=int(ex_.get("seed") or 0), log_level=ex_.get("log_level"))
    # the violating operation is the marked one (the last one in files written before the marker existed)
    t = next((i for i, o in enumerate(case["ops"]) if o.get("_target")), len(case["ops"]) - 1)
    return [v for v in viols if v["index"] == t]
