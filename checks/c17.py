"""C17 - failures are loud: an unscanned input is never reported as 'not found'.

Per seeded workload (a rule + input whose fault-free verdict is FOUND, in a
seeded mode / entry point) every single fault of the catalogue is enumerated
- every (seam call x applicable environment fault) and every (document fault x
position where it applies) - each injected alone in its own pristine child.
Oracle: a run whose fault fired must not end in False / [] / exit 0 without
'Pattern found'."""
from __future__ import annotations

import copy
import os
import random

from sim import gen, rules, util

PROP = "C17"
LEVEL = "fault_enumeration"
EXHAUSTIVE = True
EXHAUSTIVE_NOTE = ("exhaustive over the single-fault space of each sampled workload: every seam call seen in the "
                   "fault-free control run x every applicable environment fault, and every document fault x every position "
                   "of the rule where it applies (capped at 6 positions per fault kind and item shape); the workloads are sampled")
TIERS = {
    "quick": {"runs": 208, "budget_s": 150, "chunk": 3, "max_shrink": 4, "shrink_each_s": 15, "shrink_budget_s": 60},
    "thorough": {"runs": 14000, "budget_s": 3300, "chunk": 6, "max_shrink": 8, "shrink_each_s": 30, "shrink_budget_s": 300},
}
CHILD_TIMEOUT = {"quick": 30, "thorough": 60}
RULE = ("one evaluation = one fault injected alone into a workload whose fault-free control run said FOUND; distinct = "
        "distinct (fault class incl. spelling/position class, entry point lib|cli, assembly|binary, bool|list, first|all, outcome class) "
        "among runs whose fault actually fired; non-trivial = the fault fired (the seam call was reached / the edited document was read)")
REAL = ["JASM (whole package, from the tree under test)", "PyYAML", "regex engine", "subprocess.run (real; only Popen is subclassed)",
        "objdump (real, unless the injected fault is a failing peer)", "GNU as (builds the object files)", "filesystem (real files in a private tmpfs dir)"]
STUB = ["errno faults at open()/mkdir()/exists()", "stand-in peer program for a failing/killed objdump", "TimeoutError of the regex scan (virtual clock)",
        "process boundary of the CLI (argv/stdio/exit status simulated in a forked child)"]
ASSUMPTIONS = [
    "a fault counts only if it fired (its seam call was reached or its document was opened) - recorded per run",
    "'undefined macro' is injected only into rules for which at least one macro definition is supplied (C19's scope; see DESIGN.md)",
    "for faults after which the rule or the input cannot have been read / parsed / disassembled (missing, unreadable, undecodable or malformed files; "
    "absent, failing or killed objdump; not an object) ANY verdict is a violation; for the other listed faults (wrongly typed entries, groups, $not, "
    "$deref, bounds, undefined macros, regex deadline) an outcome that is still FOUND is tolerated (tallied) and only False/[]/exit-0-without-found violates",
    "short or torn reads that yield another valid document are not injected (indistinguishable from a different input)",
]

BAD_UTF8 = b"\xff\xfe\x80"


def _workload(rng, runner):
    """Build one workload: files, op, info - or None."""
    binary = rng.random() < 0.3
    entry = "cli" if rng.random() < 0.3 else "lib"
    ret = rng.choice(["bool", "list"])
    search = rng.choice(["first", "all"])
    only_addr = rng.random() < 0.3
    files = {}
    sections = None
    names = gen.pick_names(rng)
    RULE, BIN, ASM = names["rule"], names["bin"], names["asm"]
    feats = {f for f in rules.FEATURES if rng.random() < 0.55}
    # document faults need something to bite on: keep the feature set rich
    if rng.random() < 0.5:
        feats |= {"macros"}
    # (a side generator for the size dimension, so that every other choice of the workload stays what it was)
    rng_s = random.Random(int(util.digest(list(rng.getstate()[1][:16]))[:16], 16))
    if binary:
        src, meta = gen.gen_asm_source(rng, random_bytes_p=0.15)
        if rng_s.random() < 0.2:
            # a file of some size (data that objdump -d does not print): thresholds on the input size
            src += f'\n\t.section .rodata.pad,"a"\n\t.zero {rng_s.choice([70_000, 300_000, 1_200_000])}\n'
        elf = gen.assemble(src)
        if elf is None:
            return None
        files[BIN] = elf
        code_secs = [m["name"] for m in meta if not m["data"]]
        if not code_secs:
            return None
        if rng.random() < 0.5:
            k = rng.randrange(1, len(code_secs) + 1)
            sections = rng.sample(code_secs, k)
        runner.materialise({BIN: elf})
        rc, text, _err, _argv = gen.harness_objdump(BIN, sections, cwd=runner.root)
        if rc != 0:
            return None
        inp = BIN
    else:
        text, _ins = gen.gen_listing(rng)
        if rng_s.random() < 0.06:
            # a listing of some size: the generated window first, a long tail of ordinary lines after it
            sub = random.Random(rng_s.getrandbits(64))
            tail, _e = gen.render_listing(sub, [gen.gen_instruction(sub, addr_pool=[0x10, 0x2000]) for _ in range(sub.choice([1800, 2600]))],
                                          base=0x900000, section=".text.tail", header=False)
            text += tail
        files[ASM] = text
        inp = ASM
    dec = gen.decode_listing(text)
    built = rules.build_found_rule(rng, dec, features=feats, sections=sections, binary=binary, macro_dir=names["macro_dir"])
    if built is None:
        return None
    doc, mfiles, margs, info = built
    files[RULE] = gen.dump_yaml(doc)
    for rel, md in mfiles.items():
        files[rel] = gen.dump_yaml(md)
    if entry == "lib":
        op = {"op": "match", "rule": RULE, "input": inp, "type": "binary" if binary else "assembly", "ret": ret,
              "search": search, "only_addr": only_addr, "macros": margs or None}
    else:
        argv = ["-p", RULE, "-b" if binary else "-s", inp]
        if search == "all":
            argv.append("--all-matches")
        if only_addr:
            argv.append("--return_only_address")
        if margs:
            argv += ["--macros"] + margs
        op = {"op": "cli", "argv": argv}
    info["lib_equiv"] = {"op": "match", "rule": RULE, "input": inp, "type": "binary" if binary else "assembly", "ret": "bool",
                         "search": search, "only_addr": only_addr, "macros": margs or None}
    info.update({"entry": entry, "type": "binary" if binary else "assembly", "ret": ret if entry == "lib" else "cli", "search": search,
                 "rule_file": RULE, "input_file": inp})
    return files, op, doc, mfiles, info


def is_found(oc):
    if oc[0] == "ret":
        return oc[1] is True or (isinstance(oc[1], list) and len(oc[1]) > 0)
    if oc[0] == "cli":
        return oc[1] == 0 and oc[2] == "found"
    return False


HARD_PREFIXES = ("enoent:", "eisdir:", "dangling_symlink:", "eacces:", "emfile:", "enfile:", "eperm:", "eloop:", "eio_open:", "enomem_open:", "eio_read:", "bad_utf8:", "exists_false:",
                 "prog_absent:", "prog_eacces:", "fork_enomem:", "fork_eagain:", "rc1_", "rc2_", "rc127", "rcN_", "killed_", "not_elf:", "empty_file:",
                 "truncated_elf:", "D:malformed", "D:empty_doc", "D:scalar_doc", "D:list_doc", "D:macro_file_")


def is_hard(label: str) -> bool:
    """Faults after which the rule or the input simply cannot have been read / parsed / disassembled: the statement's
    first sentence applies without any room - the operation must terminate with an error, FOUND is as wrong as NOT FOUND."""
    return label.startswith(HARD_PREFIXES)


def classify(oc):
    """loud | found | silent"""
    if oc[0] == "exc":
        return "loud"
    if oc[0] == "ret":
        if oc[1] is True or (isinstance(oc[1], list) and oc[1]):
            return "found"
        if oc[1] is False or oc[1] == [] or oc[1] is None or oc[1] == "":
            return "silent"
        return "found"
    if oc[0] == "cli":
        if oc[1] != 0:
            return "loud"
        return "found" if oc[2] == "found" else "silent"
    return "loud"


def env_faults(rng, events, op, files, outcome, rule_rel="rule.yaml", input_rel=None):
    """Every (seam call x applicable fault) for the seam calls of the control run."""
    out = []
    seen = set()
    macro_files = set(op.get("macros") or [])
    if op["op"] == "cli" and "--macros" in op["argv"]:
        i = op["argv"].index("--macros")
        macro_files = {a for a in op["argv"][i + 1:] if not a.startswith("-")}
    for ev in events:
        if ev["seam"] == "open" and not ev["path"].startswith("logs"):
            p = ev["path"]
            if p in seen:
                continue
            seen.add(p)
            role = "rule" if p == rule_rel else ("macrofile" if p in macro_files else "input")
            for kind in ("eacces", "emfile", "enfile", "eperm", "eloop", "eio_open", "enomem_open", "eio_read"):
                out.append({"kind": kind, "target": p, "label": f"{kind}:{role}"})
            out.append({"kind": "remove", "target": p, "label": f"enoent:{role}"})
            out.append({"kind": "mkdir_in_place", "target": p, "label": f"eisdir:{role}"})
            out.append({"kind": "dangling_symlink", "target": p, "label": f"dangling_symlink:{role}"})
            data = util.dec_content(files[p])
            cut = rng.randrange(0, len(data) + 1)
            out.append({"kind": "replace", "target": p, "content": {"b64": _b64(data[:cut] + BAD_UTF8 + data[cut:])}, "label": f"bad_utf8:{role}"})
        elif ev["seam"] == "exists":
            p = ev["path"]
            if ("x", p) in seen:
                continue
            seen.add(("x", p))
            xrole = "rule" if p == rule_rel else ("macrofile" if p in macro_files else "binary")
            out.append({"kind": "missing", "target": p, "label": f"exists_false:{xrole}"})
        elif ev["seam"] == "spawn":
            if "spawn" in seen:
                continue
            seen.add("spawn")
            for kind in ("prog_absent", "prog_eacces", "fork_enomem", "fork_eagain"):
                out.append({"kind": kind, "label": f"{kind}:objdump"})
            out.append({"kind": "rc", "code": 1, "stdout": "none", "stderr": "objdump: in.bin: file format not recognized", "label": "rc1_nostdout:objdump"})
            out.append({"kind": "rc", "code": 1, "stdout": rng.choice(["none", "torn"]), "tear": rng.random(),
                        "stderr": rng.choice(["objdump: warning: section has no contents", "objdump: in.bin: file truncated", "objdump: out of memory allocating 4096 bytes", "objdump: in.bin: Permission denied", ""]),
                        "label": "rc1_otherstderr:objdump"})
            out.append({"kind": "rc", "code": 1, "stdout": "full", "stderr": "objdump: warning then error", "label": "rc1_fullstdout:objdump"})
            out.append({"kind": "rc", "code": rng.choice([3, 64, 126, 255]), "stdout": "full", "stderr": "objdump: odd exit status", "label": "rcN_fullstdout:objdump"})
            out.append({"kind": "rc", "code": 2, "stdout": "torn", "tear": rng.random(), "stderr": "objdump: read error", "label": "rc2_tornstdout:objdump"})
            out.append({"kind": "rc", "code": 127, "stdout": "none", "stderr": "sh: objdump: not found", "label": "rc127:objdump"})
            out.append({"kind": "killed", "stdout": "torn", "tear": rng.random(), "label": "killed_torn_midline:objdump"})
            out.append({"kind": "killed", "stdout": "torn", "tear": rng.random(), "line_boundary": True, "label": "killed_torn_lineboundary:objdump"})
            out.append({"kind": "killed", "stdout": "none", "label": "killed_nostdout:objdump"})
            out.append({"kind": "killed", "stdout": "full", "label": "killed_fullstdout:objdump"})
            out.append({"kind": "killed", "stdout": "torn", "tear": rng.random(), "signal": rng.choice(["SEGV", "TERM", "ABRT", "BUS"]), "label": "killed_othersignal_torn:objdump"})
            # real peer failures: the binary is not something objdump accepts
            inp = input_rel
            if inp in files:
                data = util.dec_content(files[inp])
                out.append({"kind": "remove", "target": inp, "label": "enoent:binary"})
                out.append({"kind": "mkdir_in_place", "target": inp, "label": "eisdir:binary"})
                out.append({"kind": "dangling_symlink", "target": inp, "label": "dangling_symlink:binary"})
                out.append({"kind": "replace", "target": inp, "content": "this is not an object file\n", "label": "not_elf:binary"})
                out.append({"kind": "replace", "target": inp, "content": "", "label": "empty_file:binary"})
                out.append({"kind": "replace", "target": inp, "content": {"b64": _b64(data[:rng.randrange(8, 64)])}, "label": "truncated_elf:binary"})
        elif ev["seam"] == "regex":
            if "regex" in seen:
                continue
            seen.add("regex")
            out.append({"kind": "regex_timeout", "duration": 61 + rng.randrange(0, 10000), "after": 0, "label": f"regex_timeout_at_start:{ev['fn']}"})
            if ev["fn"] == "finditer":
                n = int(str(ev["res"]).split("@")[-1]) if "@" in str(ev["res"]) else 0
                if n >= 1:
                    out.append({"kind": "regex_timeout", "duration": 61 + rng.randrange(0, 10000), "after": rng.randrange(1, n + 1), "label": "regex_timeout_after_k_matches:finditer"})
    if op["op"] == "cli":
        for kind in ("log_mkdir_eacces", "log_mkdir_enospc", "log_mkdir_erofs"):
            out.append({"kind": kind, "target": "logs/*", "nth": rng.choice([1, 1, 2, 3]), "label": kind})
            out.append({"kind": kind, "target": "logs", "label": kind + ":top"})
        out.append({"kind": "log_open_eacces", "target": "logs/*", "label": "log_open_eacces"})
        out.append({"kind": "log_write_enospc", "target": "logs/*", "label": "log_write_enospc"})
        out.append({"kind": "replace", "target": "logs", "content": "not a directory\n", "label": "log_dir_is_file"})
    return out


def _b64(b):
    import base64
    return base64.b64encode(b).decode()


def run_one(index, seed, runner, tier, opts):
    import random
    rng = random.Random(seed)
    counters = {"workloads": 0, "discarded_nobuild": 0, "discarded_control_notfound": 0, "faults_fired": {}, "placed": {}, "not_fired": {},
                "outcome": {"loud": 0, "tolerated_found": 0, "silent": 0}, "tolerated_found": {}, "seam_escapes": 0, "by_entry": {}}
    distinct = set()
    violations = []
    digests = []
    evals = 0
    vtime = 0.0
    sample = None
    wl = _workload(rng, runner)
    if wl is None:
        counters["discarded_nobuild"] += 1
        return {"evals": 0, "counters": counters, "distinct": [], "violations": [], "digest": "nobuild", "sample": None}
    files, op, doc, mfiles, info = wl
    # a share of the workloads runs with the package logger at DEBUG / INFO (library entry: the embedding
    # application configured logging; the CLI has its own --debug)
    lopts = {"log_level": rng.choice([None, None, None, "DEBUG", "INFO"])}
    info["log_level"] = lopts["log_level"]
    runner.materialise(files)
    ctl = runner.run([op], seed, lopts)
    vtime += ctl["vtime"]
    digests.append(util.digest(ctl["events"]))
    counters["seam_escapes"] += len(ctl["escapes"])
    warnings = [f"seam-escape in control run {index}: {e}" for e in ctl["escapes"][:3]]
    if not is_found(ctl["outcomes"][0]):
        counters["discarded_control_notfound"] += 1
        return {"evals": 0, "counters": counters, "distinct": [], "violations": [], "digest": util.digest(digests), "sample": None,
                "vtime": vtime, "warnings": warnings}
    counters["workloads"] += 1
    wclass = f"{info['entry']}/{info['type']}/{info['ret']}/{info['search']}"
    counters["by_entry"][wclass] = 1
    RULE = info["rule_file"]
    faults = env_faults(rng, ctl["events"], op, files, ctl["outcomes"][0], rule_rel=RULE, input_rel=info["input_file"])
    for df in rules.doc_faults(rng, doc, mfiles, rule_rel=RULE, hints=info):
        faults.append({"kind": "replace", "target": df["target"], "content": df["content"], "label": "D:" + df["label"], "klass": "D:" + df["klass"]})
    for f in faults:
        fop = copy.deepcopy(op)
        fop["faults"] = [f]
        res = runner.run([fop], seed, lopts)
        evals += 1
        vtime += res["vtime"]
        digests.append(util.digest(res["events"]))
        counters["seam_escapes"] += len(res["escapes"])
        label = f["label"].split("@")[0]
        counters["placed"][label] = counters["placed"].get(label, 0) + 1
        oc = res["outcomes"][0]
        if not res["fired"][0]:
            counters["not_fired"][label] = counters["not_fired"].get(label, 0) + 1
            continue
        counters["faults_fired"][label] = counters["faults_fired"].get(label, 0) + 1
        cls = classify(oc)
        distinct.add(f"{label}|{wclass}|{cls}")
        if cls == "loud":
            counters["outcome"]["loud"] += 1
        elif cls == "found" and is_hard(label):
            counters["outcome"]["hard_fault_tolerated"] = counters["outcome"].get("hard_fault_tolerated", 0) + 1
            case = {"files": {k: util.enc_content(v) for k, v in files.items()}, "ops": [fop],
                    "extra": {"info": info, "no_yaml_shrink": f["label"].startswith("D:"), "seed": seed}}
            violations.append({"case": case, "violation": _violation(f, fop, oc, info, hard=True)})
        elif cls == "found":
            counters["outcome"]["tolerated_found"] += 1
            counters["tolerated_found"][label] = counters["tolerated_found"].get(label, 0) + 1
        else:
            counters["outcome"]["silent"] += 1
            case = {"files": {k: util.enc_content(v) for k, v in files.items()}, "ops": [fop],
                    "extra": {"info": info, "no_yaml_shrink": f["label"].startswith("D:"), "seed": seed}}
            violations.append({"case": case, "violation": _violation(f, fop, oc, info)})
        if sample is None and cls == "loud" and f["label"].startswith("D:"):
            sample = {"run": index, "seed": seed, "workload": wclass, "features": info["features"], "rule": files[RULE][:600],
                      "op": {k: v for k, v in op.items() if k != "faults"},
                      "fault": {k: (v if not isinstance(v, (dict, str)) or len(str(v)) < 300 else str(v)[:300] + "...") for k, v in f.items()},
                      "outcome": oc[:3] if oc[0] != "cli" else oc[:3], "events": [e for e in res["events"] if e["seam"] not in ("op_begin", "op_end")][:6]}
    # ---- the same faults after a predecessor in the same process: a valid, non-matching rule was
    #      loaded from the same paths just before (what a path-keyed cache would keep serving)
    nf_doc = _not_found_variant(doc)
    if nf_doc is not None and faults:
        picks = rng.sample(faults, min(len(faults), PREDECESSOR_FAULTS[tier]))
        for f in picks:
            fop = copy.deepcopy(op)
            fop["faults"] = [f]
            # the predecessor is always a library operation: one process = at most one CLI invocation
            pre = copy.deepcopy(info["lib_equiv"])
            ops = [{"op": "write", "path": RULE, "content": gen.dump_yaml(nf_doc)}, pre,
                   {"op": "write", "path": RULE, "content": files[RULE]}, fop]
            runner.reset(files)
            res = runner.run(ops, seed)
            runner.reset(files)
            evals += 1
            vtime += res["vtime"]
            digests.append(util.digest(res["events"]))
            label = f["label"].split("@")[0]
            counters["after_predecessor"] = counters.get("after_predecessor", 0) + 1
            if is_found(res["outcomes"][1]) or not res["fired"][-1]:
                continue
            oc = res["outcomes"][-1]
            cls = classify(oc)
            distinct.add(f"{label}|{wclass}|{cls}|after-predecessor")
            if cls == "silent":
                counters["outcome"]["silent"] += 1
                case = {"files": {k: util.enc_content(v) for k, v in files.items()}, "ops": ops,
                        "extra": {"info": info, "no_yaml_shrink": True, "seed": seed}}
                v = _violation(f, fop, oc, info)
                v["signature"] += ":after-predecessor"
                v["detail"] += " (after a valid non-matching rule had been loaded from the same path in the same process)"
                violations.append({"case": case, "violation": v})
    # ---- faults that destroy the input (so that any 'not found' is an unscanned input, whatever the
    #      fault-free run says), under a file name that is not valid UTF-8: objdump echoes the name, and the
    #      decoding of its output is one more place where an error can be turned into an empty listing
    if info["type"] == "binary":
        inp = info["input_file"]
        xname = EXOTIC_BIN
        xfiles = {k: v for k, v in files.items() if k != inp}
        xfiles[xname] = files[inp]
        xop = _rename_input(op, inp, xname)
        data = util.dec_content(files[inp])
        for f in ({"kind": "replace", "target": xname, "content": "this is not an object file\n", "label": "not_elf:binary"},
                  {"kind": "replace", "target": xname, "content": "", "label": "empty_file:binary"},
                  {"kind": "replace", "target": xname, "content": {"b64": _b64(data[:rng.randrange(8, 64)])}, "label": "truncated_elf:binary"},
                  {"kind": "mkdir_in_place", "target": xname, "label": "eisdir:binary"},
                  {"kind": "remove", "target": xname, "label": "enoent:binary"}):
            fop = copy.deepcopy(xop)
            fop["faults"] = [f]
            runner.reset(xfiles)
            res = runner.run([fop], seed)
            evals += 1
            vtime += res["vtime"]
            digests.append(util.digest(res["events"]))
            counters["non_utf8_name"] = counters.get("non_utf8_name", 0) + 1
            oc = res["outcomes"][0]
            cls = classify(oc)
            distinct.add(f"{f['label']}|{wclass}|{cls}|non-utf8-name")
            if cls == "silent":
                counters["outcome"]["silent"] += 1
                case = {"files": {k: util.enc_content(v) for k, v in xfiles.items()}, "ops": [fop],
                        "extra": {"info": info, "no_yaml_shrink": False, "no_control": True, "seed": seed}}
                v = _violation(f, fop, oc, info)
                v["signature"] += ":non-utf8-name"
                v["detail"] += " (input file name is not valid UTF-8; the fault makes the input unscannable, so no control run is needed)"
                violations.append({"case": case, "violation": v})
        runner.reset(files)
    return {"evals": evals, "counters": counters, "distinct": sorted(distinct), "violations": violations, "digest": util.digest(digests),
            "sample": sample, "vtime": vtime, "warnings": warnings}


EXOTIC_BIN = "caf\udce9 latin1.o"


def _rename_input(op, old, new):
    op = copy.deepcopy(op)
    op.pop("faults", None)
    if op["op"] == "match":
        op["input"] = new
    else:
        op["argv"] = [new if a == old else a for a in op["argv"]]
    return op


PREDECESSOR_FAULTS = {"quick": 10, "thorough": 16}


def _not_found_variant(doc):
    """The same rule with one more leading item that matches nothing: valid, but not found."""
    pat = doc.get("pattern")
    if not isinstance(pat, list) or not pat:
        return None
    d = copy.deepcopy(doc)
    d["pattern"] = ["fxsave64"] + d["pattern"]
    return d


def signature(f, op):
    """What identifies a finding: the fault class (kind, spelling, position class) and the entry/type it was seen with is NOT part of it."""
    return f["label"].split("@")[0]


def _violation(f, fop, oc, info, hard=False):
    shown = oc[:3] if oc[0] != "cli" else [oc[0], oc[1], oc[2], oc[3][:2]]
    if hard:
        return {
            "clause": "unreadable-input-did-not-end-in-error",
            "signature": signature(f, fop) + ":tolerated",
            "detail": f"fault {f['label']} fired in {info['entry']}/{info['type']} mode (the rule or the input could not be read / parsed / disassembled) "
                      f"and the operation ended with the verdict {shown} instead of an error",
            "got": shown,
        }
    return {
        "clause": "fired-fault-ended-in-not-found",
        "signature": signature(f, fop),
        "detail": f"fault {f['label']} fired in {info['entry']}/{info['type']} mode and the operation ended with {shown} instead of an error",
        "got": shown,
    }


def _names_target(op, f, runner):
    """A file fault only counts against an operation that actually names that file (the shrinker may have
    simplified the operation, e.g. dropped --macros, so that the faulted file is no longer one of its inputs)."""
    tgt = f.get("target")
    if tgt is None:
        return True
    return os.path.normpath(tgt) in runner.named_files(op)


def evaluate(case, runner):
    """Replay/shrink oracle: the same operation without its fault, performed in a pristine process on the
    files as they are at that point, must say FOUND; the faulted operation (after its predecessors, if
    the case has any) must not end in not-found."""
    files = case["files"]
    runner.materialise(files)
    fop = case["ops"][-1]
    for op in case["ops"][:-1]:
        if op["op"] == "write":
            runner.apply_write(op)
    no_control = bool((case.get("extra") or {}).get("no_control"))
    lopts = {"log_level": ((case.get("extra") or {}).get("info") or {}).get("log_level")}
    rseed = int((case.get("extra") or {}).get("seed") or 0)
    if not no_control:
        ctl = copy.deepcopy(fop)
        ctl["faults"] = []
        res = runner.run([ctl], rseed, lopts)
        if not is_found(res["outcomes"][-1]):
            return []
    runner.materialise(files)
    res = runner.run(case["ops"], rseed, lopts)
    oc = res["outcomes"][-1]
    if not res["fired"][-1]:
        return []
    cls = classify(oc)
    if cls == "loud":
        return []
    out = []
    suffix = ":after-predecessor" if len(case["ops"]) > 1 else (":non-utf8-name" if no_control else "")
    for idx in res["fired"][-1]:
        f = fop["faults"][idx]
        label = f["label"].split("@")[0]
        info = (case.get("extra") or {}).get("info") or {"entry": fop["op"], "type": fop.get("type", "?")}
        if cls == "silent":
            v = _violation(f, fop, oc, info)
            v["signature"] += suffix
            out.append(v)
        elif is_hard(label) and len(case["ops"]) == 1 and not no_control and _names_target(fop, f, runner):
            out.append(_violation(f, fop, oc, info, hard=True))
    return out
